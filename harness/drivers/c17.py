"""C17 - message text handling never damages data.

Tie A: real compatibility.try_utf8_decode, Message views (decoded and raw,
with the cache), Message.create and the property setters, on generated
nested values; all 1- and 2-byte sequences exhaustively, structured 3- and
4-byte ones, random long ones.
"""
import datetime
import random

from harness import core
from harness.core import coq_bool, coq_list

core.setup_path()

PROPS = ['content_type', 'content_encoding', 'headers', 'delivery_mode',
         'priority', 'correlation_id', 'reply_to', 'expiration', 'message_id',
         'timestamp', 'message_type', 'user_id', 'app_id', 'cluster_id']


SETTERS = ['app_id', 'message_id', 'content_encoding', 'content_type',
           'correlation_id', 'delivery_mode', 'timestamp', 'priority',
           'reply_to', 'message_type', 'expiration', 'user_id']


class Opaque(object):
    def __init__(self):
        self.ids = {}

    def get(self, x):
        k = (type(x).__name__, repr(x))
        if k not in self.ids:
            self.ids[k] = len(self.ids) + 10
        return self.ids[k]


def to_pv(x, op):
    if isinstance(x, bool):
        return 'PBool %s' % coq_bool(x)
    if isinstance(x, int):
        return 'PInt (%d)%%Z' % x
    if isinstance(x, str):
        return 'PStr ([%s]%%N)' % ';'.join(str(ord(c)) for c in x)
    if isinstance(x, (bytes, bytearray)):
        return 'PBytes ([%s]%%N)' % ';'.join(str(b) for b in x)
    if x is None:
        return 'PNone'
    if isinstance(x, dict):
        return 'PDict %s' % coq_list(['((%s), (%s))' % (to_pv(k, op), to_pv(v, op))
                                      for k, v in x.items()])
    if isinstance(x, list):
        return 'PList %s' % coq_list(['(%s)' % to_pv(v, op) for v in x])
    if isinstance(x, tuple):
        return 'PTuple %s' % coq_list(['(%s)' % to_pv(v, op) for v in x])
    return 'POpaque %d%%N' % op.get(x)


VALID = ['héllo'.encode(), b'plain', '雪'.encode(), '\U0001F600'.encode(),
         'a\u0000b'.encode(), b'x' * 40, '߿ࠀ￿'.encode()]
INVALID = [b'\xff', b'\xfe\xff', b'\xc0\xaf', b'\xed\xa0\x80', b'\xe2\x82',
           b'\xf4\x90\x80\x80', b'\x80', b'ok\xc3', b'\xf0\x80\x80\x80',
           b'\xe0\x9f\xbf']


class Driver(object):
    PID = 'C17'
    MODEL_TARGETS = ['Model/Decode.vo']
    CHUNK = 120
    SPEC = dict(header='From AV Require Import Lib.Base Model.Decode.\n'
                       'Local Open Scope N_scope.',
                tin='dc_in', tobs='dc_obs', eqb='dc_obs_eqb', model='dc_model',
                prop='dc_prop_ok', nontriv='dc_nontrivial')
    RULE = ('try_utf8_decode on every 1- and 2-byte sequence (exhaustive) and '
            'on structured 3-/4-byte prefixes x all last bytes; Message views '
            'on generated nested values (depth <= 4: dict/list/tuple/str/'
            'bytes valid+invalid UTF-8/empty/int/bool/None/float) read in '
            'random orders with auto_decode on and off; Message.create on all '
            'subsets of given defaults and random properties; setters with '
            'and without a prior read.  Non-trivial = auto-decoding with at '
            'least two reads, or any utf8/create/set case.')
    EXHAUSTIVE = {'quick': False, 'thorough': False}
    ASSUMPTIONS = ['dictionaries whose keys stay distinct after decoding',
                   'floats / datetimes are opaque (only identity matters)']

    # ---- generators ----
    def leaf(self, rnd):
        k = rnd.random()
        if k < 0.3:
            return rnd.choice(VALID)
        if k < 0.45:
            return rnd.choice(INVALID)
        if k < 0.55:
            return rnd.choice([b'', '', 0, False, None])
        if k < 0.7:
            return rnd.choice(['text', 'é', 'x' * 10])
        if k < 0.8:
            return rnd.choice([1, -5, 2 ** 40, True])
        if k < 0.9:
            return rnd.choice([1.5, datetime.datetime(2020, 1, 2, 3, 4, 5)])
        return bytes(rnd.randrange(256) for _ in range(rnd.randrange(1, 6)))

    def value(self, rnd, depth):
        if depth <= 0 or rnd.random() < 0.4:
            return self.leaf(rnd)
        k = rnd.random()
        if k < 0.5:
            return self.gen_dict(rnd, depth)
        if k < 0.75:
            return [self.value(rnd, depth - 1) for _ in range(rnd.randrange(0, 4))]
        return tuple(self.value(rnd, depth - 1) for _ in range(rnd.randrange(0, 4)))

    def gen_dict(self, rnd, depth, n=None):
        d = {}
        seen = set()
        for _ in range(n if n is not None else rnd.randrange(0, 5)):
            key = rnd.choice(['k%d' % rnd.randrange(9), b'b%d' % rnd.randrange(9),
                              'é%d' % rnd.randrange(3), b'\xff%d' % rnd.randrange(3),
                              'headers', 'app_id'])
            dk = key
            if isinstance(key, bytes):
                try:
                    dk = key.decode('utf-8')
                except UnicodeDecodeError:
                    pass
            if dk in seen:
                continue
            seen.add(dk)
            d[key] = self.value(rnd, depth - 1)
        return d

    # ---- cases ----
    def case_read(self, auto, body, method, props, fields):
        from amqpstorm.message import Message
        import copy
        op = Opaque()
        cin = 'DRead %s (%s) (%s) (%s) %s' % (
            coq_bool(auto), to_pv(body, op), to_pv(method, op), to_pv(props, op),
            coq_list(['F' + f.capitalize() if f != 'properties' else 'FProps'
                      for f in fields]))
        m = Message(None, body=copy.deepcopy(body), method=copy.deepcopy(method),
                    properties=copy.deepcopy(props), auto_decode=auto)
        vals = []
        try:
            for f in fields:
                vals.append(getattr(m, f))
            raw = m.to_dict()
            cobs = 'ORead %s (%s) (%s) (%s)' % (
                coq_list(['(%s)' % to_pv(v, op) for v in vals]),
                to_pv(raw['body'], op), to_pv(raw['method'], op),
                to_pv(raw['properties'], op))
        except Exception as why:
            cobs = 'OBad'
        return dict(cin=cin, cobs=cobs, meta=dict(kind='read', auto=auto,
                                                  fields=fields,
                                                  body=repr(body)[:80],
                                                  props=repr(props)[:200]))

    def case_utf8(self, prefix):
        from amqpstorm.compatibility import try_utf8_decode
        op = Opaque()
        res = []
        for c in range(256):
            res.append('(%s)' % to_pv(try_utf8_decode(bytes(prefix) + bytes([c])), op))
        return dict(cin='DUtf8 ([%s]%%N)' % ';'.join(str(b) for b in prefix),
                    cobs='OUtf8 %s' % coq_list(res),
                    meta=dict(kind='utf8', prefix=bytes(prefix).hex()))

    def case_create(self, props):
        from amqpstorm.message import Message
        import copy
        op = Opaque()
        given = copy.deepcopy(props)
        cin = 'DCreate (%s)' % to_pv(given, op)
        m = Message.create(None, 'body', props)
        keys = list(m._properties.keys())
        kept = [(k, m._properties.get(k)) for k in (given or {})]
        cobs = 'OCreate (%s) %s %s' % (
            to_pv(props, op), coq_list(['(%s)' % to_pv(k, op) for k in keys]),
            coq_list(['((%s), (%s))' % (to_pv(k, op), to_pv(v, op))
                      for k, v in kept]))
        return dict(cin=cin, cobs=cobs, meta=dict(kind='create',
                                                  props=repr(given)[:200]))

    def case_set(self, auto, props, pre, name, value):
        from amqpstorm.message import Message
        import copy
        op = Opaque()
        cin = 'DSet %s (%s) %s (%s) (%s)' % (
            coq_bool(auto), to_pv(props, op), coq_bool(pre), to_pv(name, op),
            to_pv(value, op))
        m = Message(None, body=None, properties=copy.deepcopy(props),
                    auto_decode=auto)
        if pre:
            m.properties
        setattr(m, name, value)
        cobs = 'OSet (%s) (%s)' % (to_pv(m.properties, op),
                                   to_pv(m._properties, op))
        return dict(cin=cin, cobs=cobs, meta=dict(kind='set', auto=auto, pre=pre,
                                                  name=name, value=repr(value),
                                                  props=repr(props)[:200]))

    def corpus_cases(self):
        return []

    def cases(self, tier, seed):
        rnd = random.Random(seed)
        out = []
        # all 1- and 2-byte sequences
        out.append(self.case_utf8(b''))
        for b0 in range(256):
            out.append(self.case_utf8(bytes([b0])))
        # structured 3- and 4-byte prefixes
        for p in [b'\xe0\xa0', b'\xe0\x9f', b'\xe1\x80', b'\xed\x9f', b'\xed\xa0',
                  b'\xef\xbf', b'\xe2\x82', b'\xf0\x90\x80', b'\xf0\x8f\xbf',
                  b'\xf4\x8f\xbf', b'\xf4\x90\x80', b'\xf1\x80\x80', b'\xf5\x80\x80',
                  b'ab\xc3', b'\xe2\x82\xac\xe2\x82', b'\xf0\x9f\x98']:
            out.append(self.case_utf8(p))
        n = 150 if tier == 'quick' else 2000
        fields = ['body', 'method', 'properties']
        for _ in range(n):
            auto = rnd.random() < 0.75
            body = rnd.choice([self.leaf(rnd), rnd.choice(VALID + INVALID), b'', None])
            method = rnd.choice([None, self.gen_dict(rnd, 2),
                                 {'consumer_tag': b't', 'delivery_tag': 1,
                                  'redelivered': False, 'exchange': b'',
                                  'routing_key': b'\xff'}])
            props = rnd.choice([None, {}, self.gen_dict(rnd, 4), self.gen_dict(rnd, 3)])
            fs = [rnd.choice(fields) for _ in range(rnd.randrange(1, 6))]
            out.append(self.case_read(auto, body, method, props, fs))
        for _ in range(60 if tier == 'quick' else 600):
            base = rnd.choice([None, {}, self.gen_dict(rnd, 2)])
            if base is not None:
                for k in rnd.sample(['correlation_id', 'message_id', 'timestamp'],
                                    rnd.randrange(0, 4)):
                    base[k] = rnd.choice(['given', b'given', 7])
            out.append(self.case_create(base))
        for _ in range(80 if tier == 'quick' else 800):
            out.append(self.case_set(
                rnd.random() < 0.7, rnd.choice([None, {}, self.gen_dict(rnd, 2)]),
                rnd.random() < 0.5, rnd.choice(SETTERS),
                rnd.choice(['v', b'v', 'é'.encode(), b'\xff', 5, None, 1.5])))
        return out

    def replay_cases(self, doc):
        return [c for c in self.cases(doc.get('tier', 'quick'), doc['seed'])
                if c['cin'] == doc['coq_input']]

    def stats(self, cases):
        st = {}
        for c in cases:
            k = c['meta']['kind']
            st[k] = st.get(k, 0) + 1
        return st
