"""C11 - decided on the channel state machine (Model/Chan.v, Model/ChanProps.v)."""
from harness.chandrv import ChanDriver
from harness import concdrv


class Driver(ChanDriver):
    PID = 'C11'
    PROP = 'c11_ok'
    PROFILES = [('errors', 150, 2000), ('consume', 60, 600)]
    CONC = [('close', concdrv.gen_close, 'conc_close_ok', 100, 1000),
            ('connclose', concdrv.gen_connclose, 'conc_connclose_once_ok', 80, 800)]
    RULE = ("scenarios from the profiles ['errors', 'consume'] of harness/changen.py: sequences of "
            'application operations on 1-3 channels, each with a script of '
            'inbound frame batches (replies, deliveries, returns, cancels, '
            'channel/connection closes, silence) delivered one batch per '
            'sleep.  Non-trivial = at least 3 steps and some step raised or '
            'wrote frames.')

    def corpus(self):
        F = lambda n, num=0, s=b'': (n, num, s)
        return [
            # close() gives up after its time-out; the broker's own Channel.Close for the channel
            # crosses it and must still get its CloseOk
            (2, [(1, ('close',), []),
                 (1, ('idle',), [[(1, F('NChClose', 404))]]),
                 (2, ('rpc', 0), [[(2, F('NDeclareOk', 1))]])]),
        ]
