"""C08 - close() always ends clean; failed open leaks nothing; reopen starts fresh.

Tie: histories over {open (broker: ok / connection refused / name lookup fails /
silent / drops the socket / rejects the login), channel, confirm, deliver,
return, declare, channel.close, broker channel close, channel.open, close
(broker: answers / silent / drops), broker connection close, socket drop} are
run on a real Connection (virtual runtime, reference broker) and on the Coq
model (Model/Life.v); after EVERY operation the result, the connection state,
the registry, the runtime inventory (connected sockets, live reader threads,
armed timers), the heartbeat run flag, the error count and every kept channel
object are compared.  Concurrent close() (2-3 threads, with other threads
working) runs under the seeded scheduler and is judged by conc_teardown_ok.
"""
import itertools
import random

from harness import core, lifert, concdrv
from harness.core import coq_bool, coq_list


def gen_history(rnd, maxlen):
    """API-conforming histories: open() only on a connection that is not up
    (after close() or a failed open())."""
    ops = []
    up = False          # the application believes the connection is usable
    dirty = False       # open() succeeded since the last close()
    nch = 0
    n = rnd.randrange(2, maxlen + 1)
    while len(ops) < n:
        r = rnd.random()
        if not dirty:
            how = rnd.choice(['ok', 'ok', 'ok', 'refuse', 'gai', 'silent', 'drop', 'reject'])
            ops.append(('open', how))
            if how == 'ok':
                dirty = True
            elif rnd.random() < 0.3:
                ops.append(('close', rnd.choice(['answers', 'silent', 'drop'])))
            continue
        if r < 0.2:
            ops.append(('channel',))
            nch += 1
        elif r < 0.3 and nch:
            ops.append(('confirm', rnd.randrange(nch)))
        elif r < 0.4 and nch:
            ops.append((rnd.choice(['deliver', 'return']), rnd.randrange(nch)))
        elif r < 0.5 and nch:
            ops.append(('declare', rnd.randrange(nch)))
        elif r < 0.58 and nch:
            ops.append((rnd.choice(['chclose', 'bchclose']), rnd.randrange(nch)))
        elif r < 0.66 and nch:
            ops.append(('chopen', rnd.randrange(nch)))
        elif r < 0.74:
            ops.append((rnd.choice(['bclose', 'drop', 'dropmid']),))
        else:
            ops.append(('close', rnd.choice(['answers', 'answers', 'silent', 'drop'])))
            dirty = False
            if rnd.random() < 0.25:
                ops.append(('close', 'answers'))      # closing twice
            if rnd.random() < 0.3 and nch:
                ops.append((rnd.choice(['declare', 'chclose']), rnd.randrange(nch)))
    if dirty or rnd.random() < 0.5:
        ops.append(('close', rnd.choice(['answers', 'silent', 'drop'])))
    return ops


def gen_teardown(rnd):
    """Concurrent: connection.close() from 2-3 threads while others work."""
    nchan = rnd.choice([1, 2])
    threads = [[(0, ('conn_close',))] for _ in range(rnd.choice([2, 2, 3]))]
    for c in range(1, nchan + 1):
        if rnd.random() < 0.7:
            threads.append([(c, rnd.choice([('declare', b'w%d' % c), ('publish', b'Ax', False),
                                            ('close', 200)]))
                            for _ in range(rnd.randrange(1, 3))])
    ev = []
    if rnd.random() < 0.3:
        ev = [(rnd.randrange(0, 3), rnd.choice([('connclose', 320), ('drop',)]))]
    return dict(nchan=nchan, threads=threads, events=ev, heartbeat=rnd.choice([0, 60]),
                slow_closeok=rnd.choice([0, 0, 0.3, 0.6]))


def gen_hbrace(rnd):
    """close() at the very instant a heartbeat timer fires."""
    threads = [[(0, ('sync_timer',)), (0, ('conn_close',))]]
    if rnd.random() < 0.4:
        threads.append([(0, ('sync_timer',)), (0, ('conn_close',))])
    nchan = rnd.choice([0, 1])
    if rnd.random() < 0.4:
        nchan = 1
        threads.append([(1, ('declare', b'h')), (1, ('sync_timer',)), (1, ('publish', b'Ax', False))])
    if rnd.random() < 0.3:
        # one tick later: the wire has been silent for a whole interval by then
        threads[0].insert(0, (0, ('sync_timer',)))
    # with no channel nothing has been written since the checker started: the tick that races
    # with close() has a heartbeat to send
    return dict(nchan=nchan, threads=threads, heartbeat=rnd.choice([2, 4, 60]))


class Driver(concdrv.ConcMixin):
    PID = 'C08'
    MODEL_TARGETS = ['Model/Life.vo', 'Model/ConcObs.vo']
    CHUNK = 150
    SPEC = dict(header='From AV Require Import Lib.Base Model.ChanAlloc Model.Life.',
                tin='(bool * list lop)', tobs='(list lobs)', eqb='life_obs_eqb',
                model='life_model', prop='life_prop_ok', nontriv='life_nontrivial')
    CONC = [('teardown', gen_teardown, 'conc_teardown_ok', 100, 1000),
            ('hbrace', gen_hbrace, 'conc_teardown_ok', 80, 800)]
    LINE_P = [0.0, 0.05, 0.15, 0.3]
    RULE = ('API-conforming histories of 2..12 operations (see module docstring), heartbeat '
            '0 or 60 s, exhaustive over all open/close behaviours for the shapes '
            'open-x;close-y;open-ok;channel;declare, random otherwise.  Non-trivial = at least '
            '3 operations and one close().  Concurrent: 2-3 threads in connection.close() with '
            '0-2 threads working on channels and an optional broker close / socket drop.')
    EXHAUSTIVE = {'quick': False, 'thorough': False}
    ASSUMPTIONS = ['open() is called on a connection that is not up (after close() or a failed open())',
                   'Channel.open() is called on a closed channel object that still belongs to the '
                   'current connection',
                   'a socket whose connect() failed is released by the interpreter when the last '
                   'reference goes (it is not counted)']
    TRUSTED = ['harness/lifert.py (virtual sockets / threads / timers inventory)',
               'that closing a socket releases the descriptor and that a finished loop ends the OS '
               'thread are runtime facts outside the model']

    def make_case(self, hb, ops):
        ops = [tuple(o) for o in ops]
        err = None
        try:
            with core.case_alarm(40):
                obs = lifert.run_history(hb, ops)
        except core.Broken:
            raise
        except (Exception, core.CaseTimeout) as why:
            obs = '[]'
            err = repr(why)
        cin = '(%s, %s)' % (coq_bool(hb > 0), coq_list([lifert.op_coq(o) for o in ops]))
        return dict(cin=cin, cobs=obs, meta=dict(heartbeat=hb, ops=[list(o) for o in ops],
                                                 harness_error=err))

    def corpus_cases(self):
        return [self.make_case(60, [('open', 'silent'), ('open', 'ok'), ('channel',), ('declare', 0),
                                    ('close', 'answers')]),
                self.make_case(60, [('open', 'ok'), ('channel',), ('confirm', 0), ('deliver', 0),
                                    ('return', 0), ('chclose', 0), ('chopen', 0), ('declare', 0),
                                    ('close', 'silent'), ('open', 'ok'), ('channel',), ('close', 'drop')])]

    def cases(self, tier, seed):
        rnd = random.Random(seed)
        out = []
        hows = ['ok', 'refuse', 'gai', 'silent', 'drop', 'reject']
        chows = ['answers', 'silent', 'drop']
        for a, b in itertools.product(hows, chows):
            out.append((rnd.choice([0, 60]), [('open', a), ('close', b), ('open', 'ok'), ('channel',),
                                              ('declare', 0), ('close', 'answers')]))
        try:
            cases = [self.make_case(hb, ops) for hb, ops in out]
            for _ in range(150 if tier == 'quick' else 2500):
                cases.append(self.make_case(rnd.choice([0, 60]),
                                            gen_history(rnd, 8 if tier == 'quick' else 12)))
            cases += self.conc_cases(tier, seed)
        except core.Broken:
            pass
        return cases

    def replay_cases(self, doc):
        c = doc['case']
        if c.get('conc'):
            return self.conc_replay(c)
        return [self.make_case(c['heartbeat'], c['ops'])]

    def shrink(self, case):
        """Drop operations from the end / one at a time while the verdict stays."""
        if case['meta'].get('conc') or case['meta'].get('harness_error'):
            return case
        from harness.run import evaluate
        cur = case
        for _ in range(6):
            ops = cur['meta']['ops']
            if len(ops) <= 1:
                break
            try:
                cands = [self.make_case(cur['meta']['heartbeat'], ops[:j] + ops[j + 1:])
                         for j in range(len(ops))]
                res, dis, vio = evaluate(self, cands, tag='shrink')
            except Exception:
                break
            pool = vio if case in [] else (vio or dis)
            if not pool:
                break
            cur = min(pool, key=lambda c: len(c['meta']['ops']))
        return cur

    def stats(self, cases):
        st = {'histories': 0, 'concurrent_runs': 0, 'ops': {}, 'open_how': {}, 'close_how': {}, 'len': {}}
        for c in cases:
            m = c['meta']
            if m.get('conc'):
                st['concurrent_runs'] += 1
                continue
            st['histories'] += 1
            st['len'][len(m['ops'])] = st['len'].get(len(m['ops']), 0) + 1
            for o in m['ops']:
                st['ops'][o[0]] = st['ops'].get(o[0], 0) + 1
                if o[0] == 'open':
                    st['open_how'][o[1]] = st['open_how'].get(o[1], 0) + 1
                if o[0] == 'close':
                    st['close_how'][o[1]] = st['close_how'].get(o[1], 0) + 1
        return st
