"""C15 - decided on the channel state machine (Model/Chan.v, Model/ChanProps.v)."""
from harness.chandrv import ChanDriver


class Driver(ChanDriver):
    PID = 'C15'
    PROP = 'c15_ok'
    PROFILES = [('get', 150, 2000)]
    RULE = ("scenarios from the profiles ['get'] of harness/changen.py: sequences of "
            'application operations on 1-3 channels, each with a script of '
            'inbound frame batches (replies, deliveries, returns, cancels, '
            'channel/connection closes, silence) delivered one batch per '
            'sleep.  Non-trivial = at least 3 steps and some step raised or '
            'wrote frames.')
