"""Scenario runner for the channel state machine (Model/Chan.v).

A scenario is a list of steps (channel, application operation, script) where
the script is a list of batches of inbound frames, one batch delivered each
time the application sleeps (the library's only way of waiting).  The real
Connection/Channel/Rpc/Basic objects run on the virtual runtime; the broker
is silent (everything the peer says is in the scripts) but records what the
client writes.
"""
from pamqp import body as pbody
from pamqp import header as pheader
from pamqp import specification as spec

from harness import core, vconn, vrt
from harness.core import coq_Z, coq_bool, coq_bytes, coq_list, coq_nat

STATES = {0: 'CLOSED', 1: 'CLOSING', 2: 'OPENING', 3: 'OPEN'}

RPC_KINDS = {0: 'NDeclareOk', 1: 'NBindOk', 2: 'NQosOk', 3: 'NSelectOk',
             4: 'NTxOk'}


# ---- abstract frames: (name, num, str) ------------------------------------
def to_pamqp(chan, fr):
    name, num, s = fr
    if isinstance(s, str):
        s = s.encode()
    if chan == 0:
        if name in ('NFaultRecv', 'NFaultSend', 'NFaultPoll'):
            return name
        if name == 'NChClose':
            return spec.Connection.Close(reply_code=num, reply_text='bye',
                                         class_id=0, method_id=0)
        if name == 'NChCloseOk':
            return spec.Connection.CloseOk()
        raise ValueError(fr)
    t = s.decode('latin-1')
    return {
        'NDeclareOk': lambda: spec.Queue.DeclareOk(queue='q', message_count=num,
                                                   consumer_count=0),
        'NBindOk': lambda: spec.Queue.BindOk(),
        'NQosOk': lambda: spec.Basic.QosOk(),
        'NSelectOk': lambda: spec.Confirm.SelectOk(),
        'NTxOk': lambda: spec.Tx.SelectOk(),
        'NConsumeOk': lambda: spec.Basic.ConsumeOk(consumer_tag=t),
        'NCancelOk': lambda: spec.Basic.CancelOk(consumer_tag=t),
        'NCancel': lambda: spec.Basic.Cancel(consumer_tag=t, nowait=True),
        'NGetOk': lambda: spec.Basic.GetOk(delivery_tag=num, redelivered=False,
                                           exchange='', routing_key='rk',
                                           message_count=0),
        'NGetEmpty': lambda: spec.Basic.GetEmpty(),
        'NHeader': lambda: pheader.ContentHeader(
            body_size=num, properties=spec.Basic.Properties()),
        'NBody': lambda: pbody.ContentBody(s),
        'NDeliver': lambda: spec.Basic.Deliver(consumer_tag=t, delivery_tag=num,
                                               redelivered=False, exchange='',
                                               routing_key='rk'),
        'NReturn': lambda: spec.Basic.Return(reply_code=num, reply_text='NO_ROUTE',
                                             exchange='', routing_key='rk'),
        'NAck': lambda: spec.Basic.Ack(delivery_tag=num),
        'NNack': lambda: spec.Basic.Nack(delivery_tag=num),
        'NChClose': lambda: spec.Channel.Close(reply_code=num, reply_text='closed',
                                               class_id=0, method_id=0),
        'NChCloseOk': lambda: spec.Channel.CloseOk(),
        'NChOpenOk': lambda: spec.Channel.OpenOk(),
        'NFlow': lambda: spec.Channel.Flow(active=bool(num)),
        'NUnknown': lambda: spec.Basic.RecoverOk(),
    }[name]()


def frame_coq(fr):
    name, num, s = fr
    return '{| f_name := %s; f_num := %s; f_str := %s |}' % (
        name, coq_Z(num), coq_bytes(s))


def script_coq(script):
    return coq_list([coq_list(['(%s, %s)' % (coq_nat(c), frame_coq(f))
                               for c, f in tick]) for tick in script])


def op_coq(op):
    k = op[0]
    if k == 'rpc':
        return '(ARpc %s)' % coq_nat(op[1])
    if k == 'publish':
        return '(APublish %s)' % coq_bool(op[1])
    if k == 'consume':
        return '(AConsume %s)' % coq_bytes(op[1])
    if k == 'cancel':
        return '(ACancel %s)' % coq_bytes(op[1])
    return {'get': 'AGet', 'ack': 'AAck', 'check': 'ACheck',
            'process': 'AProcess', 'start': 'AStart', 'build': 'ABuild', 'stop': 'AStop',
            'close': 'AClose', 'idle': 'AIdle'}[k]


def step_coq(step):
    c, op, script = step
    return '{| st_chan := %s; st_op := %s; st_script := %s |}' % (
        coq_nat(c), op_coq(op), script_coq(script))


def scenario_coq(nchan, steps):
    return '(%s, %s)' % (coq_nat(nchan), coq_list([step_coq(s) for s in steps]))


# ---- observations -----------------------------------------------------------
def err_coq(exc):
    from amqpstorm.exception import (AMQPConnectionError, AMQPMessageError,
                                     AMQPChannelError)
    kind = ('EConn' if isinstance(exc, AMQPConnectionError) else
            'EMsg' if isinstance(exc, AMQPMessageError) else
            'EChan' if isinstance(exc, AMQPChannelError) else None)
    if kind is None:
        return None
    code = exc.error_code
    return '{| e_kind := %s; e_code := %s |}' % (
        kind, 'None' if code is None else '(Some %s)' % coq_Z(code))


WNAMES = {'Queue.Declare': 'WRequest 0', 'Queue.Bind': 'WRequest 1',
          'Basic.Qos': 'WRequest 2', 'Confirm.Select': 'WRequest 3',
          'Tx.Select': 'WRequest 4', 'Basic.Get': 'WGet',
          'Basic.Publish': 'WPublish', 'ContentHeader': 'WHeader',
          'ContentBody': 'WBody', 'Basic.Consume': 'WConsume',
          'Basic.Cancel': 'WCancel', 'Basic.Ack': 'WAck',
          'Channel.Close': 'WChClose', 'Channel.CloseOk': 'WChCloseOk',
          'Channel.Open': 'WChOpen', 'Channel.FlowOk': 'WFlowOk',
          'Connection.Close': 'WConnClose', 'Heartbeat': 'WRequest 98'}


def written_coq(frames):
    out = []
    for ch, fr in frames:
        nm = WNAMES.get(fr.name)
        if nm is None:
            nm = 'WRequest 99'
        s = b''
        if fr.name in ('Basic.Consume', 'Basic.Cancel'):
            s = fr.consumer_tag
            s = s.encode() if isinstance(s, str) else s
        out.append('{| o_chan := %s; o_name := %s; o_str := %s; o_sent := true |}' % (
            coq_nat(ch), nm if ' ' not in nm else '(%s%%nat)' % nm, coq_bytes(s)))
    return coq_list(out)


class Scenario(object):
    def __init__(self, nchan, rpc_timeout=1, poller=None):
        self.rt, self.br, self.conn = vconn.open_connection(
            **({'poller': poller} if poller else {}))
        self.chans = {}
        for _ in range(nchan):
            ch = self.conn.channel(rpc_timeout=rpc_timeout)
            self.chans[ch.channel_id] = ch
        vconn.settle(self.rt, 2)
        self.br.silent = True
        self.br.handlers.clear()
        self.script = []
        self.pub_base = len(self.br.ledger_in)
        self.rt.idle_hooks = [self.on_idle]
        self.delivered = []
        self.fault_times = []

    def on_idle(self):
        self.br.step()          # parse what the client wrote (silent broker)
        if self.script:
            tick = self.script.pop(0)
            # the reader only handles frames while the socket is open and it runs
            alive = (self.conn._io._running.is_set() and
                     self.conn._io.socket is not None)
            for c, fr in tick:
                pf = to_pamqp(c, fr)
                if pf == 'NFaultRecv':
                    # the peer goes away: EOF (num 0), connection reset (num 1), or EOF in the
                    # middle of a frame (num 2: part of a heartbeat frame arrives first)
                    if fr[1] == 2:
                        from pamqp import heartbeat as _hb, frame as _fr
                        raw = _fr.marshal(_hb.Heartbeat(), 0)
                        self.br.push_bytes(raw[:len(raw) - 1 - (len(self.delivered) % 5)])
                        vrt.pump_all()
                    self.br.drop('reset' if fr[1] == 1 else 'eof')
                    vrt.pump_all()
                elif pf == 'NFaultSend':
                    import errno

                    def broken(data):
                        # the failure exists for the client from its first refused write on
                        if not self.fault_times:
                            self.fault_times.append(self.rt.now)
                        raise BrokenPipeError(errno.EPIPE, 'Broken pipe')
                    self.br.sock.send_script = broken
                elif pf == 'NFaultPoll':
                    import errno
                    # num: bit 0 = the connection uses the select() poller, the rest picks the errno
                    code = [errno.EBADF, errno.EINVAL, errno.ENOMEM][(fr[1] >> 1) % 3]
                    self.rt.poll_error = OSError(code, 'poll failed')
                    vrt.pump_all()
                else:
                    self.br.deliver(c, pf)
                if alive:
                    self.delivered.append((c, fr))
                    if isinstance(pf, str) and pf != 'NFaultSend':
                        self.fault_times.append(self.rt.now)
        vrt.pump_all()

    def snapshot(self, c):
        return snap_of(self.conn, self.chans[c], c)

    def run_step(self, step):
        c, op, script = step
        ch = self.chans[c]
        vrt.RT = self.rt
        # frames scripted for ticks an earlier operation did not live to see
        # are still queued at the peer: they come first
        npub = 1 + sum(1 for (_, cc, f, _) in self.br.ledger_in
                       if cc == c and f.name == 'Basic.Publish')
        own_ticks = [[(cc, (f[0], npub, f[2])
                       if f[0] in ('NAck', 'NNack') and f[1] == -1 else f)
                      for cc, f in t] for t in script]
        self.script = self.script + own_ticks
        self.br.step()
        mark = len(self.br.ledger_in)
        self.delivered = []
        self.latencies = []
        own = len(script)
        self.rt.sleep_count = 0
        self.rt.max_sleeps = 400 + 120 * (len(script) + 1)
        got = []
        res = 'RNone'
        try:
            k = op[0]
            if k == 'rpc':
                r = {0: lambda: ch.queue.declare('q'),
                     1: lambda: ch.queue.bind('q', 'e'),
                     2: lambda: ch.basic.qos(1),
                     3: lambda: ch.confirm_deliveries(),
                     4: lambda: ch.tx.select()}[op[1]]()
                if r is None:
                    res = 'RNone'
                else:
                    res = '(RNum %s)' % coq_Z(r.get('message_count', 0))
            elif k == 'get':
                m = ch.basic.get('q')
                if m is None:
                    res = 'RNone'
                else:
                    res = '(RMsg %s %s)' % (coq_Z(m._method['delivery_tag']),
                                            coq_bytes(m._body))
            elif k == 'publish':
                r = ch.basic.publish(b'x', 'rk', mandatory=op[1])
                res = 'RNone' if r is None else '(RBool %s)' % coq_bool(r)
            elif k == 'consume':
                def cb(message, _c=c):
                    got.append(message)
                r = ch.basic.consume(cb, 'q', consumer_tag=op[1].decode('latin-1'))
                res = '(RTag %s)' % coq_bytes(r)
            elif k == 'cancel':
                ch.basic.cancel(op[1].decode('latin-1'))
            elif k == 'ack':
                ch.basic.ack(1)
            elif k == 'check':
                ch.check_for_errors()
            elif k == 'process':
                # callbacks were bound by earlier consume steps; rebind to collect
                for t in list(ch._consumer_callbacks):
                    ch._consumer_callbacks[t] = got.append
                ch.process_data_events()
                res = None
            elif k == 'start':
                for t in list(ch._consumer_callbacks):
                    ch._consumer_callbacks[t] = got.append
                ch.start_consuming()
                res = None
            elif k == 'build':
                for m in ch.build_inbound_messages(break_on_empty=True):
                    got.append(m)
                res = None
            elif k == 'stop':
                ch.stop_consuming()
            elif k == 'close':
                if len(op) > 1 and op[1] == 'with' and ch.is_open:
                    # leaving a `with channel:` block: on an open channel the source makes this
                    # close(); on any other it does nothing (not interesting, so close() is used)
                    ch.__exit__(None, None, None)
                else:
                    ch.close()
            elif k == 'idle':
                while self.script:
                    self.rt.advance(0.01)
            if res is None:
                res = '(RMsgs %s)' % msgs_coq(got)
        except vrt.Deadlock:
            res = 'RHang'
            if got and k in ('process', 'build', 'start'):
                res = '(RMsgsErr %s (Some hang_err))' % msgs_coq(got)
        except Exception as why:
            ec = err_coq(why)
            res = '(RErr %s)' % ec if ec else 'ROther'
            if got and k in ('process', 'build', 'start'):
                # the messages handed out before the exception stay handed out
                res = '(RMsgsErr %s %s)' % (msgs_coq(got), '(Some %s)' % ec if ec else 'None')
            if ec and 'EConn' in ec and self.fault_times:
                # virtual time between the transport fault and this exception
                self.latencies.append(self.rt.now - self.fault_times[0])
        self.br.step()
        written = [(cc, fr) for (_, cc, fr, _) in self.br.ledger_in[mark:]]
        # a request that was never written is never answered
        if not written and op[0] not in ('idle', 'check', 'ack', 'process', 'build', 'start'):
            self.script = self.script[:max(0, len(self.script) - own)]
        late = any(l > 1.0 + 0.02 for l in self.latencies)
        if self.latencies:
            self.fault_times = []      # the fault has been reported
        return ('{| ob_res := %s; ob_snap := %s; ob_written := %s; '
                'ob_delivered := %s; ob_late := %s |}' % (
                    res, self.snapshot(c), written_coq(written),
                    coq_list(['(%s, %s)' % (coq_nat(cc), frame_coq(f))
                              for cc, f in self.delivered]), coq_bool(late)), res)

    def close(self):
        try:
            self.conn.heartbeat.stop()
        except Exception:
            pass


def snap_of(conn, ch, c=None):
    """The channel/connection state the model's `snap` record describes."""
    c = int(ch) if c is None else c

    def errs(lst):
        out = []
        for e in lst:
            ec = err_coq(e)
            out.append(ec if ec else '{| e_kind := EChan; e_code := Some (-2)%Z |}')
        return coq_list(out)
    tags = [t.encode() if isinstance(t, str) else t for t in ch.consumer_tags]
    return ('{| sn_state := %s; sn_tags := %s; sn_inbound := %s; sn_req := %s; '
            'sn_resp := %s; sn_errs := %s; sn_confirm := %s; sn_conn := %s; '
            'sn_cerrs := %s; sn_registered := %s |}' % (
                STATES[ch.current_state],
                coq_list([coq_bytes(t) for t in tags]),
                coq_nat(len(ch._inbound)), coq_nat(len(ch.rpc._request)),
                coq_nat(len(ch.rpc._response)), errs(ch.exceptions),
                coq_bool(ch.confirming_deliveries),
                STATES[conn.current_state], errs(conn.exceptions),
                coq_bool(conn._channels.get(c) is ch)))


def msgs_coq(got):
    return coq_list(['(%s, %s, %s)' % (coq_Z(m._method['delivery_tag']),
                                       coq_bytes(m._method['consumer_tag']),
                                       coq_bytes(m._body)) for m in got])


def run_scenario(nchan, steps, results=None):
    select = any(fr[0] == 'NFaultPoll' and fr[1] & 1
                 for st in steps for tick in st[2] for _, fr in tick)
    sc = Scenario(nchan, poller='select' if select else None)
    obs = []
    for st in steps:
        o, r = sc.run_step(st)
        obs.append(o)
        if results is not None:
            results.append(r)
    sc.close()
    return coq_list(obs)
