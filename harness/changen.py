"""Scenario generators for the channel state machine, one profile per property.

A conforming broker is simulated at generation time: it answers requests of a
channel in order (each reply carries the serial of the request it answers),
keeps the content frames of one method contiguous per channel, and may send
unsolicited frames (deliveries, returns, cancels, closes) at any tick.
"""
import random


def F(n, num=0, s=b''):
    return (n, num, s)


class Gen(object):
    def __init__(self, rnd, nchan):
        self.rnd = rnd
        self.nchan = nchan
        self.serial = 0          # serial of declare requests (echoed in DeclareOk)
        self.dtag = 0
        self.steps = []

    def content(self, c, head, nbody=None, size=None):
        rnd = self.rnd
        nb = rnd.choice([0, 1, 1, 2, 3]) if nbody is None else nbody
        parts = [bytes(rnd.randrange(97, 123) for _ in range(rnd.randrange(1, 4)))
                 for _ in range(nb)]
        total = sum(len(p) for p in parts)
        return [(c, head), (c, F('NHeader', total))] + [(c, F('NBody', 0, p)) for p in parts]

    def delivery(self, c, tag=b't1'):
        self.dtag += 1
        return self.content(c, F('NDeliver', self.dtag, tag))

    def returned(self, c, code=312):
        return self.content(c, F('NReturn', code))

    def noise(self, c, kinds='dr'):
        """unsolicited frames for one tick"""
        rnd = self.rnd
        out = []
        for _ in range(rnd.choice([0, 0, 1, 1, 2])):
            k = rnd.choice(kinds)
            if k == 'd':
                out += self.delivery(c, rnd.choice([b't1', b't2']))
            elif k == 'r':
                out += self.returned(c, rnd.choice([312, 313]))
            elif k == 'o' and self.nchan > 1:
                oc = rnd.choice([x for x in range(1, self.nchan + 1) if x != c])
                out += self.delivery(oc)
            elif k == 'u':
                out.append((c, F('NUnknown')))
        return out

    def spread(self, frames_before, reply, nticks=None):
        """put `frames_before` then `reply` into 1..3 ticks"""
        rnd = self.rnd
        n = nticks or rnd.choice([1, 1, 2, 3])
        ticks = [[] for _ in range(n)]
        for fr in frames_before:
            ticks[rnd.randrange(n)].append(fr) if False else ticks[0 if n == 1 else rnd.randrange(n)].append(fr)
        # keep content contiguous: simply place all 'before' frames in order in tick k
        ticks = [[] for _ in range(n)]
        k = rnd.randrange(n)
        ticks[k] += frames_before
        if reply is not None:
            kk = rnd.randrange(k, n)
            ticks[kk] += reply
        return ticks


def profile_rpc(rnd, tier):
    """C05: synchronous calls with unsolicited traffic, time-outs, late replies."""
    nchan = rnd.choice([1, 1, 2])
    g = Gen(rnd, nchan)
    steps = []
    pending = {}          # channel -> list of serials of unanswered declare requests
    for _ in range(rnd.randrange(2, 8)):
        c = rnd.randrange(1, nchan + 1)
        r = rnd.random()
        if r < 0.65:
            k = rnd.choice([0, 0, 0, 1, 2, 4])
            before = g.noise(c, 'drou' if r < 0.5 else 'du')
            late = []
            if k == 0:
                g.serial += 1
                me = g.serial
                # a conforming broker first answers what it still owes on this channel
                for s in pending.pop(c, []):
                    late.append((c, F('NDeclareOk', s)))
                if rnd.random() < 0.12:
                    reply = None          # never answered: time-out
                else:
                    reply = [(c, F('NDeclareOk', me))]
            else:
                reply = [(c, F({1: 'NBindOk', 2: 'NQosOk', 4: 'NTxOk'}[k]))]
                if rnd.random() < 0.1:
                    reply = None
            steps.append((c, ('rpc', k), g.spread(late + before, reply)))
        elif r < 0.8:
            steps.append((c, ('idle',), [g.noise(c, 'dro') or g.delivery(c)]))
        elif r < 0.9:
            steps.append((c, ('publish', rnd.random() < 0.5), []))
            if rnd.random() < 0.5:
                steps.append((c, ('idle',), [g.returned(c)]))
        else:
            steps.append((c, ('build',), []))
    return nchan, steps


def profile_get(rnd, tier):
    """C15: basic.get outcomes followed by further synchronous calls."""
    nchan = 1
    g = Gen(rnd, nchan)
    steps = []
    c = 1
    for _ in range(rnd.randrange(1, 4)):
        outcome = rnd.choice(['ok', 'ok', 'ok', 'empty', 'chclose', 'connclose',
                              'timeout0', 'timeout1', 'timeout2', 'consumer', 'returned'])
        if outcome == 'returned':
            # a mandatory message comes back while the get waits: the Return and its content
            # arrive before the GetOk, cut into reads anywhere; the get completes, the return is
            # reported by the operation that follows
            steps.append((c, ('publish', True), []))
            g.dtag += 1
            frames = g.returned(c, rnd.choice([312, 313])) + g.content(c, F('NGetOk', g.dtag))
            ticks = []
            i = 0
            while i < len(frames):
                n = rnd.randrange(1, 4)
                ticks.append(frames[i:i + n])
                i += n
            steps.append((c, ('get',), ticks))
            steps.append((c, ('check',), []))
            continue
        if outcome == 'consumer':
            steps.append((c, ('consume', b'ct'), [[(c, F('NConsumeOk', 0, b'ct'))]]))
            two = rnd.random() < 0.5
            if two:
                # a second consumer stays active after the first is cancelled:
                # basic.get must still be refused, its deliveries still arrive
                steps.append((c, ('consume', b'cu'), [[(c, F('NConsumeOk', 0, b'cu'))]]))
                steps.append((c, ('cancel', b'ct'), [[(c, F('NCancelOk', 0, b'ct'))]]))
                steps.append((c, ('get',), [g.delivery(c, b'cu'), [(c, F('NGetEmpty'))]]))
                steps.append((c, ('process',), []))
                steps.append((c, ('cancel', b'cu'), [[(c, F('NCancelOk', 0, b'cu'))]]))
            else:
                steps.append((c, ('get',), []))
                steps.append((c, ('cancel', b'ct'), [[(c, F('NCancelOk', 0, b'ct'))]]))
            continue
        g.dtag += 1
        frames = g.content(c, F('NGetOk', g.dtag))
        if outcome == 'empty':
            frames = [(c, F('NGetEmpty'))]
        elif outcome == 'chclose':
            cut = rnd.randrange(0, len(frames) + 1)
            frames = frames[:cut] + [(c, F('NChClose', rnd.choice([404, 406])))]
        elif outcome == 'connclose':
            cut = rnd.randrange(0, len(frames) + 1)
            frames = frames[:cut] + [(0, F('NChClose', 320))]
        elif outcome.startswith('timeout'):
            cut = min(int(outcome[-1]), max(len(frames) - 1, 0))
            frames = frames[:cut]
        ticks = []
        i = 0
        while i < len(frames):
            n = rnd.randrange(1, 4)
            ticks.append(frames[i:i + n])
            i += n
        steps.append((c, ('get',), ticks))
        for _ in range(rnd.randrange(1, 3)):
            g.serial += 1
            steps.append((c, ('rpc', 0), [[(c, F('NDeclareOk', g.serial))]]))
    return nchan, steps


def profile_confirm(rnd, tier):
    """C13: publisher confirms with fates chosen by the broker."""
    nchan = rnd.choice([1, 2])
    g = Gen(rnd, nchan)
    steps = []
    for c in range(1, nchan + 1):
        steps.append((c, ('rpc', 3), [[(c, F('NSelectOk'))]]))
    seq = {c: 0 for c in range(1, nchan + 1)}
    for _ in range(rnd.randrange(2, 7)):
        c = rnd.randrange(1, nchan + 1)
        seq[c] += 1
        mand = rnd.random() < 0.5
        # a broker only returns mandatory messages
        fate = rnd.choice(['ack', 'ack', 'nack', 'chclose', 'connclose', 'silent'] +
                          (['return', 'return'] if mand else []))
        fr = {'ack': [(c, F('NAck', -1))], 'nack': [(c, F('NNack', -1))],
              'return': g.returned(c) + [(c, F('NAck', -1))],
              'chclose': [(c, F('NChClose', 406))],
              'connclose': [(0, F('NChClose', 320))], 'silent': []}[fate]
        ticks = [fr] if rnd.random() < 0.6 or len(fr) < 2 else [fr[:-1], fr[-1:]]
        if rnd.random() < 0.3:
            ticks = [g.noise(c, 'do')] + ticks
        steps.append((c, ('publish', mand), ticks))
        if rnd.random() < 0.2:
            steps.append((c, ('check',), []))
    return nchan, steps


def profile_consume(rnd, tier):
    """C03 / C14: consumers, deliveries, returns, cancels."""
    nchan = rnd.choice([1, 1, 2])
    g = Gen(rnd, nchan)
    steps = []
    tags = {c: [] for c in range(1, nchan + 1)}
    ntag = 0
    if rnd.random() < 0.15:
        # a returned mandatory publish, noticed by a basic.get, before any consumer exists
        steps.append((1, ('publish', True), []))
        steps.append((1, ('idle',), [g.returned(1)]))
        steps.append((1, ('get',), [[(1, F('NGetEmpty'))]]))
    for _ in range(rnd.randrange(3, 10)):
        c = rnd.randrange(1, nchan + 1)
        r = rnd.random()
        if r < 0.25 or not tags[c]:
            ntag += 1
            want = rnd.choice([b'', b'ctag%d' % ntag])
            got = want or b'amq.ctag-%d' % ntag
            steps.append((c, ('consume', want), [[(c, F('NConsumeOk', 0, got))]]))
            if got not in tags[c]:
                tags[c].append(got)
        elif r < 0.6:
            fr = []
            for _ in range(rnd.randrange(1, 4)):
                k = rnd.random()
                if k < 0.7:
                    fr += g.delivery(c, rnd.choice(tags[c]))
                elif k < 0.85:
                    fr += g.returned(c)
                else:
                    # a broker only delivers to consumers it has
                    oc = rnd.choice([x for x in range(1, nchan + 1) if tags[x]])
                    fr += g.delivery(oc, rnd.choice(tags[oc]))
            ticks = []
            i = 0
            while i < len(fr):
                n = rnd.randrange(1, 6)
                ticks.append(fr[i:i + n])
                i += n
            steps.append((c, ('idle',), ticks))
            steps.append((c, (rnd.choice(['process', 'process', 'build']),), []))
        elif r < 0.7:
            t = rnd.choice(tags[c])
            others = [x for x in tags[c] if x != t]
            if others and rnd.random() < 0.4:
                # the broker cancels another consumer of the channel while this call waits
                o = rnd.choice(others)
                steps.append((c, ('cancel', t), [[(c, F('NCancel', 0, o)), (c, F('NCancelOk', 0, t))]]))
                tags[c].remove(o)
            else:
                steps.append((c, ('cancel', t), [[(c, F('NCancelOk', 0, t))]]))
            tags[c].remove(t)
        elif r < 0.8:
            t = rnd.choice(tags[c])
            steps.append((c, ('idle',), [[(c, F('NCancel', 0, t))]]))
            tags[c].remove(t)
        elif r < 0.9:
            steps.append((c, ('stop',), [[(c, F('NCancelOk', 0, t))] for t in tags[c]]))
            tags[c] = []
        elif r < 0.93 and tags[c]:
            # start_consuming: runs until the broker has cancelled every consumer of the
            # channel; deliveries arrive before it is called and while it runs
            pre = []
            for _ in range(rnd.randrange(0, 3)):
                pre += g.delivery(c, rnd.choice(tags[c]))
            order = list(tags[c])
            rnd.shuffle(order)
            ticks = []
            for t in order:
                tick = []
                for _ in range(rnd.randrange(0, 3)):
                    tick += g.delivery(c, rnd.choice(tags[c]))
                tick.append((c, F('NCancel', 0, t)))
                ticks.append(tick)
            if rnd.random() < 0.5:
                # everything (deliveries and cancels) is already there when it is called
                steps.append((c, ('idle',), [pre + [f for t in ticks for f in t]]))
                steps.append((c, ('start',), []))
            else:
                if pre:
                    steps.append((c, ('idle',), [pre]))
                steps.append((c, ('start',), ticks))
            tags[c] = []
        elif r < 0.95:
            # the reader is ahead of the consumer: several deliveries and a
            # returned message are routed during one sleep of the consuming call
            fr = []
            for k in rnd.choice(['drd', 'ddr', 'rdd', 'dr', 'dddr', 'drdrd']):
                fr += g.delivery(c, rnd.choice(tags[c])) if k == 'd' else g.returned(c)
            steps.append((c, (rnd.choice(['process', 'build']),), [fr]))
            steps.append((c, ('process',), []))
        else:
            # a message whose frames arrive while the consumer is already reading
            fr = g.delivery(c, rnd.choice(tags[c]))
            cut = rnd.randrange(1, len(fr) + 1)
            steps.append((c, ('idle',), [fr[:cut]]))
            steps.append((c, ('process',), [fr[cut:]] if fr[cut:] else []))
    return nchan, steps


def profile_errors(rnd, tier):
    """C07 / C11: channel close, connection close, returns; closing."""
    nchan = rnd.choice([2, 2, 3])
    g = Gen(rnd, nchan)
    steps = []
    closed = set()        # channels the broker has closed: it says nothing more on them
    for _ in range(rnd.randrange(2, 8)):
        c = rnd.randrange(1, nchan + 1)
        r = rnd.random()
        if c in closed and r < 0.55:
            r = rnd.uniform(0.55, 1.0)
        if r < 0.2:
            steps.append((c, ('idle',), [[(c, F('NChClose', rnd.choice([404, 405, 406, 999])))]]))
            closed.add(c)
        elif r < 0.3:
            steps.append((c, ('idle',), [g.returned(c, rnd.choice([312, 313]))]))
        elif r < 0.38:
            steps.append((c, ('idle',), [[(0, F('NChClose', rnd.choice([320, 200, 541])))]]))
        elif r < 0.55:
            g.serial += 1
            pend = rnd.choice([None, None, 'ch', 'conn', 'ret'])
            fr = {None: [], 'ch': [(c, F('NChClose', 404))],
                  'conn': [(0, F('NChClose', 320))], 'ret': g.returned(c)}[pend]
            reply = [(c, F('NDeclareOk', g.serial))] if pend in (None, 'ret') else []
            if pend == 'ch':
                closed.add(c)
            if pend == 'ch' and rnd.random() < 0.6:
                # the classic: consuming from (or polling) a queue that does not exist - these
                # calls wait for their answer holding the channel's own lock
                g.serial -= 1          # no declare is issued: its serial is not used up
                steps.append((c, rnd.choice([('consume', b'nq'), ('get',)]),
                              [fr] if rnd.random() < 0.5 else [[], fr]))
            else:
                steps.append((c, ('rpc', 0), [fr + reply] if rnd.random() < 0.5 else [fr, reply]))
        elif r < 0.65:
            steps.append((c, ('publish', rnd.random() < 0.5), []))
        elif r < 0.72:
            steps.append((c, ('ack',), []))
        elif r < 0.8:
            steps.append((c, ('check',), []))
        elif r < 0.9:
            if c not in closed and rnd.random() < 0.4:
                # an error is still pending when the channel is closed
                steps.append((c, ('idle',), [g.returned(c, rnd.choice([312, 313]))]))
            answered = rnd.random() < 0.8
            steps.append((c, ('close', 'with') if rnd.random() < 0.5 else ('close',),
                          [[(c, F('NChCloseOk'))]] if answered else []))
            if not answered and c not in closed and rnd.random() < 0.6:
                # the broker's own Channel.Close for that channel crosses the application's (which
                # was given up after its time-out): it still has to be answered
                steps.append((c, ('idle',), [[(c, F('NChClose', rnd.choice([404, 406])))]]))
            closed.add(c)      # the broker says nothing more on a channel the application closed
        else:
            steps.append((c, ('consume', b'k'), [[(c, F('NConsumeOk', 0, b'k'))]]))
    return nchan, steps


def profile_faults(rnd, tier):
    """C06: the transport dies at some point of a session."""
    nchan = rnd.choice([1, 2, 2])
    g = Gen(rnd, nchan)
    steps = []
    kind = rnd.choice(['recv', 'recv', 'reset', 'send', 'poll', 'midframe'])
    fault = {'recv': (0, F('NFaultRecv', 0)), 'reset': (0, F('NFaultRecv', 1)),
             'midframe': (0, F('NFaultRecv', 2)),
             'send': (0, F('NFaultSend')), 'poll': (0, F('NFaultPoll', rnd.randrange(6)))}[kind]
    n = rnd.randrange(2, 7)
    at = rnd.randrange(0, n)
    confirm = rnd.random() < 0.3
    if confirm:
        steps.append((1, ('rpc', 3), [[(1, F('NSelectOk'))]]))
    tags = []
    if rnd.random() < 0.3:
        # a channel-level error is still queued (or the broker has closed a channel) when the
        # transport dies: the connection error must win on that channel too
        c0 = rnd.randrange(1, nchan + 1)
        if rnd.random() < 0.5:
            steps.append((c0, ('publish', True), []))
            steps.append((c0, ('idle',), [g.returned(c0)]))
        else:
            steps.append((c0, ('idle',), [[(c0, F('NChClose', 404))]]))
    for i in range(n):
        c = rnd.randrange(1, nchan + 1)
        r = rnd.random()
        if r < 0.3:
            g.serial += 1
            ticks = [[], [(c, F('NDeclareOk', g.serial))]]
            op = ('rpc', 0)
        elif r < 0.45:
            g.dtag += 1
            fr = g.content(c, F('NGetOk', g.dtag))
            ticks = [fr[:1], fr[1:2], fr[2:]]
            op = ('get',)
            if tags:
                op, ticks = ('ack',), []
        elif r < 0.6:
            op = ('publish', rnd.random() < 0.5)
            ticks = [[], [(c, F('NAck', -1))]] if (confirm and c == 1) else []
        elif r < 0.7 and c == 1:
            op = ('consume', b'ct%d' % i)
            ticks = [[], [(c, F('NConsumeOk', 0, b'ct%d' % i))]]
            tags.append(b'ct%d' % i)
        elif r < 0.8 and tags:
            # a broker only delivers to consumers it has (all on channel 1 here)
            c = 1
            op, ticks = ('idle',), [g.delivery(c, rnd.choice(tags))]
        elif r < 0.9 and tags:
            c = 1
            op, ticks = ('build',), [[], g.delivery(c, rnd.choice(tags))]
        else:
            op, ticks = ('ack',), []
        if i == at:
            if op[0] in ('ack', 'check') or not ticks:
                steps.append((c, ('idle',), [[fault]]))
            else:
                k = rnd.randrange(0, len(ticks))
                ticks = [list(t) for t in ticks]
                pos = rnd.randrange(0, len(ticks[k]) + 1)
                ticks[k].insert(pos, fault)
                # after the peer is gone nothing more arrives
                if kind in ('recv', 'reset', 'midframe'):
                    ticks[k] = ticks[k][:pos + 1]
                    ticks = ticks[:k + 1]
        steps.append((c, op, ticks))
    for _ in range(rnd.randrange(1, 4)):
        c = rnd.randrange(1, nchan + 1)
        steps.append((c, rnd.choice([('ack',), ('check',), ('rpc', 0), ('publish', False),
                                     ('close',), ('close', 'with'), ('stop',), ('build',)]), []))
    if kind != 'send' and rnd.random() < 0.2:
        # the transport dies while a consumer is putting a body together: Deliver and a
        # header announcing n > 0 bytes have arrived, the body has not (or only part of it)
        g2 = Gen(rnd, 1)
        fr = g2.content(1, F('NDeliver', 1, b'cz'), nbody=rnd.choice([1, 2, 3]))
        cut = rnd.randrange(2, len(fr))
        steps = [(1, ('consume', b'cz'), [[], [(1, F('NConsumeOk', 0, b'cz'))]]),
                 (1, (rnd.choice(['build', 'process', 'start']),), [fr[:cut], [fault]]),
                 (1, rnd.choice([('check',), ('ack',), ('rpc', 0)]), [])]
        return 1, steps
    return nchan, steps


PROFILES = {'faults': profile_faults, 'rpc': profile_rpc, 'get': profile_get, 'confirm': profile_confirm,
            'consume': profile_consume, 'errors': profile_errors}
