"""Virtual runtime for driving the real amqpstorm objects deterministically.

No source hooks: module attributes of amqpstorm's modules are substituted at
run time (DESIGN.md 2.1).

* virtual clock: `time.time()`/`time.sleep()`/`sleep` of amqpstorm.rpc,
  amqpstorm.channel and amqpstorm.connection
* virtual socket / poller: amqpstorm.io.socket, amqpstorm.io.select
* virtual reader thread: amqpstorm.io.threading.Thread (never an OS thread in
  the sequential runtime; it is *pumped*: the real IO._process_incoming_data
  loop body runs until the poller has nothing more to offer)
* virtual heartbeat timer: Heartbeat.timer_impl

Sequential discipline: one application call runs at a time; whenever it
sleeps (the library's only way of waiting) virtual time advances and the
environment runs: the peer (reference broker) consumes what the client wrote
and queues replies, the reader is pumped, due timers fire.
"""
import errno
import socket as real_socket
import select as real_select
import threading as real_threading
import time as real_time
import types


class PumpYield(BaseException):
    """Raised by the virtual poller to leave the reader loop when idle."""


class Deadlock(Exception):
    pass


class Runtime(object):
    """One per scenario."""

    def __init__(self):
        self.now = 0.0
        self.sockets = []
        self.threads = []          # VThread
        self.timers = []           # VTimer
        self.idle_hooks = []       # callables run at every sleep
        self.in_idle = False
        self.sleep_count = 0
        self.max_sleeps = 200000
        self.trace = []

    # -- clock ------------------------------------------------------------
    def time(self):
        return self.now

    def sleep(self, dt):
        self.sleep_count += 1
        if self.sleep_count > self.max_sleeps:
            raise Deadlock('too many sleeps')
        self.advance(dt)

    def advance(self, dt):
        """Advance virtual time by dt, running the environment."""
        target = self.now + max(dt, 0)
        if self.in_idle:
            # sleep from inside environment code (e.g. reader thread closing
            # the connection): just move the clock
            self.now = target
            return
        self.in_idle = True
        try:
            while True:
                due = [t for t in self.timers if t.armed and t.deadline <= target]
                if not due:
                    break
                t = min(due, key=lambda x: (x.deadline, x.seq))
                self.now = max(self.now, t.deadline)
                t.fire()
            self.now = target
            for hook in list(self.idle_hooks):
                hook()
        finally:
            self.in_idle = False

    # -- inventory (C08) ----------------------------------------------------
    def inventory(self):
        return dict(
            open_sockets=sum(1 for s in self.sockets if not s.closed),
            live_threads=sum(1 for t in self.threads if t.alive),
            armed_timers=sum(1 for t in self.timers if t.armed),
        )


RT = None  # current runtime


def rt():
    return RT


# ---------------------------------------------------------------------------
# time facade

class TimeFacade(object):
    @staticmethod
    def time():
        return RT.time()

    @staticmethod
    def sleep(dt):
        RT.sleep(dt)

    def __getattr__(self, name):
        return getattr(real_time, name)


def _vsleep(dt):
    RT.sleep(dt)


# ---------------------------------------------------------------------------
# socket

class VSocket(object):
    """Peer-scriptable stream socket."""

    def __init__(self, *a, **k):
        self.rt = RT
        self.closed = False
        self.connected = False
        self.sent = bytearray()         # every byte the client wrote
        self.send_log = []              # (offset, nbytes-or-error)
        self.inbox = []                 # pending recv items: bytes or Exception or b'' (EOF)
        self.send_script = None         # callable(data)-> int | raises
        self.on_send = None             # callable(bytes) after bytes accepted
        self.timeout = None
        self.fd = 1000 + len(RT.sockets)
        RT.sockets.append(self)
        self.connect_error = getattr(RT, 'connect_error', None)
        self.shutdown_called = False

    # client side API used by amqpstorm.io
    def settimeout(self, t):
        self.timeout = t

    def connect(self, addr):
        if self.connect_error is not None:
            raise self.connect_error
        self.connected = True
        if getattr(RT, 'on_connect', None):
            RT.on_connect(self)

    def fileno(self):
        return self.fd

    def send(self, data):
        if self.closed:
            raise OSError(errno.EBADF, 'Bad file descriptor')
        data = bytes(data)
        if getattr(RT, 'concurrent', False):
            RT.yield_('ready')              # a preemption point before the bytes go out
            if self.closed:
                raise OSError(errno.EBADF, 'Bad file descriptor')
        if getattr(RT, 'send_policy', None) is not None:
            n = RT.send_policy(self, data)  # may raise
        elif self.send_script is not None:
            n = self.send_script(data)      # may raise
        else:
            n = len(data)
        n = max(0, min(n, len(data)))
        self.send_log.append((len(self.sent), n, RT.now))
        RT.trace.append(('send', RT.now, len(self.sent), n))
        self.sent += data[:n]
        if n and self.on_send:
            self.on_send(data[:n])
        return n

    def recv(self, bufsize):
        if self.closed:
            raise OSError(errno.EBADF, 'Bad file descriptor')
        if not self.inbox:
            raise real_socket.timeout('timed out')
        item = self.inbox.pop(0)
        if isinstance(item, BaseException):
            raise item
        if len(item) > bufsize:
            self.inbox.insert(0, item[bufsize:])
            item = item[:bufsize]
        return item

    def shutdown(self, how):
        self.shutdown_called = True
        if self.closed:
            raise OSError(errno.EBADF, 'Bad file descriptor')

    def close(self):
        self.closed = True

    # peer side
    def peer_push(self, item):
        self.inbox.append(item)

    @property
    def readable(self):
        return bool(self.inbox)


class SocketFacade(object):
    """Stands in for the `socket` module inside amqpstorm.io."""
    socket = VSocket
    error = real_socket.error
    timeout = real_socket.timeout
    gaierror = real_socket.gaierror
    AF_UNSPEC = real_socket.AF_UNSPEC
    AF_INET = real_socket.AF_INET
    AF_INET6 = real_socket.AF_INET6
    SOCK_STREAM = real_socket.SOCK_STREAM
    SHUT_RDWR = real_socket.SHUT_RDWR
    has_ipv6 = True

    @staticmethod
    def getaddrinfo(host, port, family=0, socktype=0, *a):
        err = getattr(RT, 'gai_error', None)
        if err is not None:
            raise err
        return [(real_socket.AF_INET, real_socket.SOCK_STREAM, 6, '',
                 ('127.0.0.1', port))]


class VPoll(object):
    def __init__(self):
        self.fds = {}

    def register(self, fd, mask):
        self.fds[fd] = mask

    def unregister(self, fd):
        if fd not in self.fds:
            raise KeyError(fd)
        del self.fds[fd]

    def poll(self, timeout):
        """Ready fds; when nothing is ready the reader loop is left via
        PumpYield (sequential runtime) after charging the poll time-out."""
        err = getattr(RT, 'poll_error', None)
        if err is not None:
            RT.poll_error = None
            raise err
        if getattr(RT, 'concurrent', False):
            socks = [s for s in RT.sockets if s.fd in self.fds]
            got = RT.poll_wait(socks, (timeout or 0) / 1000.0)
            err = getattr(RT, 'poll_error', None)
            if err is not None:
                RT.poll_error = None
                raise err
            return [(s.fd, real_select.POLLIN) for s in got]
        ready = []
        for s in RT.sockets:
            if s.fd in self.fds and (s.readable):
                ready.append((s.fd, real_select.POLLIN))
        if not ready:
            raise PumpYield()
        return ready


class SelectFacade(object):
    POLLIN = real_select.POLLIN
    POLLPRI = real_select.POLLPRI
    error = real_select.error

    @staticmethod
    def poll():
        return VPoll()

    @staticmethod
    def select(r, w, x, timeout=None):
        err = getattr(RT, 'poll_error', None)
        if err is not None:
            RT.poll_error = None
            raise err
        if getattr(RT, 'concurrent', False):
            socks = [s for s in RT.sockets if s.fd in r]
            got = RT.poll_wait(socks, timeout or 0)
            err = getattr(RT, 'poll_error', None)
            if err is not None:
                RT.poll_error = None
                raise err
            return [s.fd for s in got], [], []
        ready = [fd for fd in r
                 for s in RT.sockets if s.fd == fd and s.readable]
        if not ready:
            raise PumpYield()
        return ready, [], []


# ---------------------------------------------------------------------------
# threads / timers

class VThread(object):
    """Reader thread that is pumped instead of scheduled."""

    def __init__(self, target=None, name=None, args=(), kwargs=None):
        self.target = target
        self.name = name
        self.daemon = False
        self.started = False
        self.finished = False
        self.running_now = False
        self.crashed = None
        RT.threads.append(self)

    def start(self):
        self.started = True

    @property
    def alive(self):
        return self.started and not self.finished

    def is_alive(self):
        return self.alive

    def join(self, timeout=None):
        if self.running_now:
            raise RuntimeError('cannot join current thread')
        # give the thread the chance to observe its stop flag
        self.pump()

    def pump(self):
        """Run the thread's loop until it yields (idle) or returns."""
        if not self.alive or self.running_now:
            return
        self.running_now = True
        try:
            self.target()
            self.finished = True
        except PumpYield:
            pass
        except Exception:
            # as with a real thread: an uncaught exception ends this thread
            # only (threading.excepthook prints it); nobody else sees it
            import traceback
            self.finished = True
            self.crashed = traceback.format_exc()
            RT.trace.append(('thread-crash', self.name, self.crashed))
        finally:
            self.running_now = False


class ThreadingFacade(object):
    """Stands in for the `threading` module inside the library modules: the
    sequential runtime keeps real locks and pumps the reader; the concurrent
    runtime (harness/crt.py) supplies scheduler-aware objects."""
    Event = real_threading.Event

    @staticmethod
    def Lock():
        return RT.Lock() if getattr(RT, 'concurrent', False) else real_threading.Lock()

    @staticmethod
    def RLock():
        return RT.RLock() if getattr(RT, 'concurrent', False) else real_threading.RLock()

    @staticmethod
    def Thread(*a, **k):
        return RT.Thread(*a, **k) if getattr(RT, 'concurrent', False) else VThread(*a, **k)

    @staticmethod
    def Timer(*a, **k):
        return RT.Timer(*a, **k) if getattr(RT, 'concurrent', False) else real_threading.Timer(*a, **k)

    def __getattr__(self, name):
        return getattr(real_threading, name)


class VTimer(object):
    _seq = 0

    def __init__(self, interval, function, args=None, kwargs=None):
        VTimer._seq += 1
        self.seq = VTimer._seq
        self.interval = interval
        self.function = function
        self.armed = False
        self.cancelled = False
        self.fired = False
        self.daemon = False
        self.deadline = None
        RT.timers.append(self)

    def start(self):
        self.armed = True
        self.deadline = RT.now + self.interval

    def cancel(self):
        self.cancelled = True
        self.armed = False

    def fire(self):
        if not self.armed:
            return
        self.armed = False
        self.fired = True
        RT.trace.append(('timer', RT.now, self.seq))
        self.function()
        for hook in getattr(RT, 'timer_hooks', []):
            hook(self)


# ---------------------------------------------------------------------------
# installation

_installed = False


def install():
    """Substitute the module attributes (idempotent)."""
    global _installed
    import amqpstorm.io as aio
    import amqpstorm.rpc as arpc
    import amqpstorm.channel as achan
    import amqpstorm.connection as aconn
    if _installed:
        return
    tf = TimeFacade()
    arpc.time = tf
    achan.time = tf
    aconn.time = tf
    aconn.sleep = _vsleep
    aio.socket = SocketFacade
    aio.select = SelectFacade
    import amqpstorm.heartbeat as ahb
    tfac = ThreadingFacade()
    aio.threading = tfac
    arpc.threading = tfac
    achan.threading = tfac
    aconn.threading = tfac
    ahb.threading = tfac
    _installed = True


def new_runtime():
    global RT
    install()
    RT = Runtime()
    return RT


def pump_all():
    for t in list(RT.threads):
        t.pump()
