"""Lifecycle histories (C08) on the sequential virtual runtime.

ops:  ('open', how)   how in ok | refuse | gai | silent | drop | reject
      ('channel',)    open a channel; the object is kept as channel k (k = 0, 1, ..)
      ('confirm', k) ('deliver', k) ('return', k) ('declare', k)
      ('chclose', k) ('bchclose', k) ('chopen', k)
      ('close', how)  how in answers | silent | drop
      ('bclose',) ('drop',)
Observation after every op: result, connection state, registered ids, runtime
inventory (connected sockets, live reader threads, armed timers), heartbeat
run flag, number of connection errors, and per kept channel object its state,
confirm flag, queue length, error count and whether it is the registered one.
"""
import errno

from harness import core
core.setup_path()
from harness import vrt                     # noqa: E402
from harness.broker import Broker           # noqa: E402
from harness.core import coq_nat, coq_bool, coq_list   # noqa: E402
from amqpstorm.exception import AMQPMessageError   # noqa: E402

STATES = {0: 'CLOSED', 1: 'CLOSING', 2: 'OPENING', 3: 'OPEN'}


class Life(object):
    def __init__(self, heartbeat):
        import amqpstorm
        self.rt = vrt.new_runtime()
        self.brokers = []
        self.how = 'ok'
        self.close_how = 'answers'
        rt = self.rt

        def on_connect(sock):
            br = Broker()
            br.attach(sock)
            self.brokers.append(br)
            how = self.how
            if how in ('silent',):
                br.silent = True
            if how == 'drop':
                br.handlers['ProtocolHeader'] = lambda b, ch, fr: (b.drop('eof'), True)[1]
            if how == 'reject':
                from pamqp import specification as spec

                def rej(b, ch, fr):
                    b.send(0, spec.Connection.Close(reply_code=403, reply_text='ACCESS_REFUSED',
                                                    class_id=10, method_id=11))
                    return True
                br.handlers['Connection.StartOk'] = rej

            def on_close(b, ch, fr):
                b.connection_closes += 1
                if self.close_how == 'answers':
                    return False
                if self.close_how == 'drop':
                    b.drop('eof')
                else:
                    b.silent = True        # a hung broker: nothing is answered any more
                return True
            br.handlers['Connection.Close'] = on_close
        rt.on_connect = on_connect
        rt.idle_hooks.append(self.step_brokers)
        self.conn = amqpstorm.Connection('localhost', 'guest', 'guest', lazy=True,
                                         heartbeat=heartbeat, timeout=1)
        self.conn.heartbeat.timer_impl = vrt.VTimer
        self.chans = []

    def step_brokers(self):
        for br in self.brokers:
            if br.sock is not None and not br.sock.closed:
                br.step()
        vrt.pump_all()

    @property
    def br(self):
        return self.brokers[-1] if self.brokers else None

    def do(self, op):
        from amqpstorm.exception import AMQPConnectionError, AMQPChannelError
        rt = self.rt
        vrt.RT = rt
        k = op[0]
        res = 'LOk'
        try:
            if k == 'open':
                self.how = op[1]
                rt.connect_error = ConnectionRefusedError(errno.ECONNREFUSED, 'Connection refused') \
                    if op[1] == 'refuse' else None
                import socket as rs
                rt.gai_error = rs.gaierror(-2, 'Name or service not known') if op[1] == 'gai' else None
                self.conn.open()
            elif k == 'channel':
                ch = self.conn.channel(rpc_timeout=1)
                self.chans.append(ch)
            elif k == 'close':
                self.close_how = op[1]
                self.conn.close()
            elif k == 'bclose':
                if self.br and not self.br.sock.closed:
                    self.br.close_connection(320, 'CONNECTION_FORCED')
                    rt.advance(0.01)
            elif k in ('drop', 'dropmid'):
                if self.br and not self.br.sock.closed:
                    if k == 'dropmid':
                        # the session ends in the middle of a frame
                        from pamqp import frame as _fr, specification as _sp
                        raw = _fr.marshal(_sp.Basic.Deliver(consumer_tag='t', delivery_tag=1,
                                                             exchange='', routing_key='k'), 1)
                        self.br.push_bytes(raw[:11])
                        rt.advance(0.01)
                    self.br.drop('eof')
                    rt.advance(0.01)
            else:
                i = op[1]
                if i >= len(self.chans):
                    res = 'LSkip'
                else:
                    ch = self.chans[i]
                    if k == 'confirm':
                        ch.confirm_deliveries()
                    elif k == 'declare':
                        ch.queue.declare('q')
                    elif k == 'chclose':
                        ch.close()
                    elif k == 'chopen':
                        if self.conn.is_open and ch.is_closed and \
                                self.conn._channels.get(ch.channel_id) is ch:
                            ch.open()
                        else:
                            res = 'LSkip'
                    elif k in ('deliver', 'return', 'bchclose'):
                        br = self.br
                        live = br is not None and not br.sock.closed and \
                            self.conn.is_open and ch.is_open and \
                            any(t.alive for t in rt.threads) and \
                            ch.channel_id in br.open_channels and \
                            self.conn._channels.get(ch.channel_id) is ch
                        if not live:
                            res = 'LSkip'
                        elif k == 'deliver':
                            br.deliver_message(ch.channel_id, 'ct', 1, b'm')
                            rt.advance(0.01)
                        elif k == 'return':
                            br.return_message(ch.channel_id, 312, 'NO_ROUTE', b'r')
                            rt.advance(0.01)
                        else:
                            br.close_channel(ch.channel_id, 404, 'NOT_FOUND')
                            rt.advance(0.01)
        except AMQPConnectionError:
            res = 'LConnErr'
        except AMQPChannelError:
            res = 'LChanErr'
        except vrt.Deadlock:
            res = 'LHang'
        except Exception as why:
            res = 'LOther'
            self.last_other = repr(why)
        return res

    def observe(self, res):
        conn = self.conn
        inv = self.rt.inventory()
        socks = sum(1 for s in self.rt.sockets if s.connected and not s.closed)
        chans = []
        for ch in self.chans:
            chans.append('{| lc_id := %s; lc_state := %s; lc_confirm := %s; lc_inbound := %s; '
                         'lc_errs := %s; lc_registered := %s |}' % (
                             coq_nat(ch.channel_id), STATES[ch.current_state], coq_bool(ch.confirming_deliveries),
                             coq_nat(len(ch._inbound)),
                             coq_list([coq_bool(isinstance(e, AMQPMessageError)) for e in ch.exceptions]),
                             coq_bool(conn._channels.get(ch.channel_id) is ch)))
        return ('{| lo_res := %s; lo_conn := %s; lo_reg := %s; lo_socks := %s; lo_threads := %s; '
                'lo_timers := %s; lo_hb := %s; lo_errs := %s; lo_chans := %s |}' % (
                    res, STATES[conn.current_state],
                    coq_list([coq_nat(i) for i in sorted(conn._channels)]),
                    coq_nat(socks), coq_nat(inv['live_threads']), coq_nat(inv['armed_timers']),
                    coq_bool(conn.heartbeat._running.is_set()), coq_nat(len(conn.exceptions)),
                    coq_list(chans)))


def op_coq(op):
    k = op[0]
    if k == 'open':
        return '(LOpen %s)' % {'ok': 'HOk', 'refuse': 'HRefuse', 'gai': 'HGai', 'silent': 'HSilent',
                               'drop': 'HDrop', 'reject': 'HReject'}[op[1]]
    if k == 'close':
        return '(LClose %s)' % {'answers': 'CAnswers', 'silent': 'CSilent', 'drop': 'CDrop'}[op[1]]
    if k in ('channel', 'bclose', 'drop', 'dropmid'):
        return {'channel': 'LChannel', 'bclose': 'LBClose', 'drop': 'LDropSock', 'dropmid': 'LDropSock'}[k]
    return '(%s %s)' % ({'confirm': 'LConfirm', 'deliver': 'LDeliver', 'return': 'LReturn',
                         'declare': 'LDeclare', 'chclose': 'LChClose', 'bchclose': 'LBChClose',
                         'chopen': 'LChOpen'}[k], coq_nat(op[1]))


def run_history(heartbeat, ops, plain=None):
    lf = Life(heartbeat)
    obs = []
    for op in ops:
        r = lf.do(op)
        o = lf.observe(r)
        obs.append(o)
        if plain is not None:
            plain.append(o)
    return coq_list(obs)
