"""Core of the verification machinery: Coq build, case evaluation inside Coq,
verdict logic, replays, known findings, evidence.  See DESIGN.md section 5.

Everything here runs under /venv/bin/python with /repo first on sys.path so
that amqpstorm is imported from /repo's current working tree.
"""
import fcntl
import hashlib
import json
import os
import re
import subprocess
import sys
import time

VERIF = os.path.dirname(os.path.dirname(os.path.abspath(__file__)))
REPO = os.environ.get('VERIF_REPO', '/repo')
COQ = os.path.join(VERIF, 'coq')
CASES = os.path.join(COQ, 'Cases')
EVIDENCE = os.path.join(VERIF, 'evidence')
REPLAYS = os.path.join(VERIF, 'replays')
KNOWN = os.path.join(VERIF, 'KNOWN_FINDINGS.txt')
NCPU = os.cpu_count() or 4

ALLOWED_AXIOMS = set()  # none: every property theorem must be closed

TRUSTED_BASE = [
    'Coq 8.16.1 kernel incl. vm_compute (no native_compute)',
    'axioms: none (Print Assumptions: Closed under the global context)',
    'py2coq translators (translator/*.py), fail-closed',
    'correspondence harness (harness/*): differential testing of the '
    'hand-written model against /repo',
]


def setup_path():
    if REPO not in sys.path:
        sys.path.insert(0, REPO)
    os.environ.setdefault('PYTHONHASHSEED', '0')


class CaseTimeout(BaseException):
    """Not an Exception: nothing in the code under test may swallow it."""


class case_alarm(object):
    """Wall-clock guard around one case: a real dead-lock in the code under
    test (a non-reentrant lock taken twice by one thread, say) must end as a
    reported harness error, not as a check that never returns."""

    fired = 0

    def __init__(self, seconds=30):
        self.seconds = seconds

    def __enter__(self):
        import signal
        if case_alarm.fired >= 3:
            raise Broken('three cases exceeded the wall-clock guard (dead-lock in the '
                         'code under test?); no further cases are run')

        self.hit = False

        def onalarm(signum, frame):
            if not self.hit:
                self.hit = True
                case_alarm.fired += 1
            raise CaseTimeout('no result within %ds of wall time' % self.seconds)
        self.old = signal.signal(signal.SIGALRM, onalarm)
        signal.setitimer(signal.ITIMER_REAL, self.seconds, 2.0)   # keeps firing until disarmed

    def __exit__(self, *a):
        import signal
        signal.setitimer(signal.ITIMER_REAL, 0)
        signal.signal(signal.SIGALRM, self.old)
        return False


class Broken(Exception):
    """The tie or the proof is broken (not necessarily a violation)."""


# ---------------------------------------------------------------------------
# Coq literals

def coq_N(n):
    assert n >= 0
    return '%d%%N' % n


def coq_Z(n):
    return '(%d)%%Z' % n


def coq_nat(n):
    assert 0 <= n < 5000, n
    return '%d%%nat' % n


def coq_bool(b):
    return 'true' if b else 'false'


def coq_list(items):
    return '[' + '; '.join(items) + ']'


def coq_bytes(bs):
    """bytes -> list N literal (in N scope)."""
    if isinstance(bs, str):
        bs = bs.encode('utf-8')
    return '(' + '[' + ';'.join('%d' % b for b in bs) + ']' + '%N)'


def coq_option(x):
    return 'None' if x is None else '(Some %s)' % x


def coq_pair(*xs):
    return '(' + ', '.join(xs) + ')'


# ---------------------------------------------------------------------------
# Build

def _run(cmd, cwd=None, timeout=900, env=None):
    t0 = time.time()
    try:
        p = subprocess.run(cmd, cwd=cwd, stdout=subprocess.PIPE,
                           stderr=subprocess.STDOUT, timeout=timeout, env=env)
        out = p.stdout.decode('utf-8', 'replace')
        return p.returncode, out, time.time() - t0
    except subprocess.TimeoutExpired as why:
        out = (why.stdout or b'').decode('utf-8', 'replace')
        return 124, out + '\nTIMEOUT', time.time() - t0


class BuildLock(object):
    def __enter__(self):
        self.f = open(os.path.join(COQ, '.build.lock'), 'w')
        fcntl.flock(self.f, fcntl.LOCK_EX)
        return self

    def __exit__(self, *a):
        fcntl.flock(self.f, fcntl.LOCK_UN)
        self.f.close()


def write_if_changed(path, text):
    try:
        with open(path) as f:
            if f.read() == text:
                return False
    except IOError:
        pass
    os.makedirs(os.path.dirname(path), exist_ok=True)
    with open(path + '.tmp', 'w') as f:
        f.write(text)
    os.rename(path + '.tmp', path)
    return True


def run_translators():
    """Regenerate coq/Gen/*.v from /repo. Returns list of error strings."""
    setup_path()
    sys.path.insert(0, os.path.join(VERIF, 'translator'))
    import importlib
    errors = []
    for name in ('py2coq_consts', 'py2coq_errmap', 'py2coq_guards',
                 'py2coq_mgmt', 'py2coq_src', 'py2coq_dispatch'):
        try:
            mod = importlib.import_module(name)
        except ImportError:
            continue
        try:
            text = mod.translate(REPO)
        except Exception as why:  # fail closed: the tie is reported broken
            errors.append('%s: %s' % (name, why))
            # keep the models buildable for the search step: use the stale
            # table if there is one, else the committed snapshot
            dst = os.path.join(COQ, 'Gen', mod.OUTPUT)
            snap = os.path.join(VERIF, 'translator', 'fallback', mod.OUTPUT)
            if not os.path.exists(dst) and os.path.exists(snap):
                write_if_changed(dst, open(snap).read())
            continue
        write_if_changed(os.path.join(COQ, 'Gen', mod.OUTPUT), text)
    return errors


def ensure_makefile():
    mk = os.path.join(COQ, 'Makefile.coq')
    proj = os.path.join(COQ, '_CoqProject')
    if (not os.path.exists(mk) or
            os.path.getmtime(mk) < os.path.getmtime(proj)):
        rc, out, _ = _run(['coq_makefile', '-f', '_CoqProject', '-o',
                           'Makefile.coq'], cwd=COQ, timeout=120)
        if rc != 0:
            raise RuntimeError('coq_makefile failed: ' + out)


def coq_make(targets=None, timeout=1500):
    """Full .vo build (no -vos) of the given targets (default: all)."""
    with BuildLock():
        ensure_makefile()
        cmd = ['make', '-f', 'Makefile.coq', '-j%d' % NCPU]
        if targets:
            cmd += targets
        else:
            cmd.append('-k')
        rc, out, secs = _run(['timeout', str(timeout)] + cmd, cwd=COQ,
                             timeout=timeout + 30)
    return rc == 0, out, secs


def coq_props(pid):
    """Compile Props/<pid>.v on its own to capture Print Assumptions.

    Returns dict(ok, theorems, closed, axioms, out)."""
    src = os.path.join(COQ, 'Props', pid + '.v')
    text = open(src).read()
    theorems = re.findall(r'^\s*(?:Theorem|Lemma|Example|Corollary)\s+(\w+)',
                          text, re.M)
    nprint = len(re.findall(r'^\s*Print Assumptions', text, re.M))
    with BuildLock():
        rc, out, secs = _run(['timeout', '600', 'coqc', '-Q', '.', 'AV',
                              'Props/%s.v' % pid], cwd=COQ, timeout=630)
    closed = out.count('Closed under the global context')
    axioms = []
    if 'Axioms:' in out:
        for m in re.finditer(r'^(\w[\w.]*)\s*:', out, re.M):
            axioms.append(m.group(1))
    ok = (rc == 0 and closed == nprint and
          all(a in ALLOWED_AXIOMS for a in axioms))
    return dict(ok=ok, rc=rc, theorems=theorems, nprint=nprint, closed=closed,
                axioms=axioms, out=out, secs=secs)


def scan_forbidden():
    """Stranger's check: no Admitted/admit/Axiom/Parameter ... in coq/."""
    bad = []
    pat = re.compile(r'\b(Admitted|admit|Axiom|Parameter|Conjecture|'
                     r'Unset Guard|bypass_check|Admit Obligations|'
                     r'Hypothesis|Variable)\b')
    for root, _, files in os.walk(COQ):
        if root.endswith('Cases'):
            continue
        for fn in files:
            if not fn.endswith('.v'):
                continue
            insec = 0
            for i, line in enumerate(open(os.path.join(root, fn)), 1):
                code = re.sub(r'\(\*.*?\*\)', '', line)
                if re.match(r'\s*Section\b', code):
                    insec += 1
                if re.match(r'\s*End\b', code) and insec:
                    insec -= 1
                m = pat.search(code)
                if m:
                    if m.group(1) in ('Hypothesis', 'Variable') and insec:
                        continue
                    bad.append('%s:%d: %s' % (fn, i, m.group(1)))
    return bad


# ---------------------------------------------------------------------------
# Evaluate cases in Coq

CASES_TEMPLATE = """%(header)s
Definition cases : list (nat * (%(tin)s * %(tobs)s)) := [
%(body)s
].
Definition disagree := map fst (List.filter (fun c => negb (%(eqb)s (%(model)s (fst (snd c))) (snd (snd c)))) cases).
Definition violate := map fst (List.filter (fun c => negb (%(prop)s (fst (snd c)) (snd (snd c)))) cases).
Definition nontrivial := length (List.filter (fun c => %(nontriv)s (fst (snd c)) (snd (snd c))) cases).
Eval vm_compute in (length cases, disagree, violate, nontrivial).
"""


def coq_eval(pid, spec, cases, chunk=300, tag='main', timeout=600):
    """cases: list of (coq_input, coq_obs).  Returns
    dict(n, disagree=[idx], violate=[idx], nontrivial, errors=[...])."""
    os.makedirs(CASES, exist_ok=True)
    base = 'cases_%s_%s_%d' % (pid, tag, os.getpid())
    files = []
    for k in range(0, len(cases), chunk):
        part = cases[k:k + chunk]
        body = ';\n'.join('(%s, (%s, %s))' % (coq_nat_big(k + i), ci, co)
                          for i, (ci, co) in enumerate(part))
        text = CASES_TEMPLATE % dict(
            header=spec['header'], tin=spec['tin'], tobs=spec['tobs'],
            eqb=spec['eqb'], model=spec['model'], prop=spec['prop'],
            nontriv=spec.get('nontriv', '(fun _ _ => true)'), body=body)
        fn = '%s_%d.v' % (base, k // chunk)
        with open(os.path.join(CASES, fn), 'w') as f:
            f.write(text)
        files.append(fn)
    res = dict(n=0, disagree=[], violate=[], nontrivial=0, errors=[])
    procs = []
    pending = list(files)
    running = []

    def start(fn):
        return subprocess.Popen(
            ['timeout', str(timeout), 'coqc', '-Q', COQ, 'AV', fn],
            cwd=CASES, stdout=subprocess.PIPE, stderr=subprocess.STDOUT)
    outs = {}
    while pending or running:
        while pending and len(running) < NCPU:
            fn = pending.pop(0)
            running.append((fn, start(fn)))
        fn, p = running.pop(0)
        out = p.communicate()[0].decode('utf-8', 'replace')
        outs[fn] = (p.returncode, out)
    for fn in files:
        rc, out = outs[fn]
        if rc != 0:
            res['errors'].append('%s: rc=%d %s' % (fn, rc, out[-1500:]))
            continue
        flat = re.sub(r'\s+', ' ', out)
        m = re.search(r'= \((\d+)(?:%nat)?, (\[[^\]]*\]|nil), '
                      r'(\[[^\]]*\]|nil), (\d+)(?:%nat)?\)', flat)
        if not m:
            res['errors'].append('%s: cannot parse %r' % (fn, flat[-500:]))
            continue
        res['n'] += int(m.group(1))
        res['disagree'] += [int(x) for x in re.findall(r'\d+', m.group(2))]
        res['violate'] += [int(x) for x in re.findall(r'\d+', m.group(3))]
        res['nontrivial'] += int(m.group(4))
    for fn in files:
        stem = os.path.join(CASES, fn[:-2])
        for ext in ('.v', '.vo', '.vok', '.vos', '.glob'):
            try:
                os.unlink(stem + ext)
            except OSError:
                pass
        try:
            os.unlink(os.path.join(CASES, '.' + fn[:-2] + '.aux'))
        except OSError:
            pass
    return res


def coq_nat_big(n):
    # case indices: small nats are fine up to a few thousand; beyond that
    # use N.to_nat of a binary literal so the parser never sees a big nat.
    if n < 4000:
        return '%d%%nat' % n
    return '(N.to_nat %d%%N)' % n


def coq_compute(header, expr, timeout=300):
    """Evaluate one expression in Coq, return flattened output."""
    os.makedirs(CASES, exist_ok=True)
    fn = 'compute_%d_%d.v' % (os.getpid(), int(time.time() * 1000) % 10**9)
    with open(os.path.join(CASES, fn), 'w') as f:
        f.write(header + '\nEval vm_compute in (%s).\n' % expr)
    rc, out, _ = _run(['timeout', str(timeout), 'coqc', '-Q', COQ, 'AV', fn],
                      cwd=CASES, timeout=timeout + 30)
    stem = os.path.join(CASES, fn[:-2])
    for ext in ('.v', '.vo', '.vok', '.vos', '.glob'):
        try:
            os.unlink(stem + ext)
        except OSError:
            pass
    try:
        os.unlink(os.path.join(CASES, '.' + fn[:-2] + '.aux'))
    except OSError:
        pass
    if rc != 0:
        raise Broken('coq_compute failed: ' + out[-1500:])
    return re.sub(r'\s+', ' ', out).strip()


# ---------------------------------------------------------------------------
# Known findings

def load_known():
    findings, fixed = [], []
    try:
        for line in open(KNOWN):
            line = line.strip()
            if not line or line.startswith('#'):
                continue
            m = re.match(r'finding:\s+property=(\S+)\s+key=(\S+)\s+(.*)', line)
            if m:
                findings.append(dict(pid=m.group(1), key=m.group(2),
                                     what=m.group(3)))
                continue
            m = re.match(r'fixed:\s+property=(\S+)\s+(\S+)\s+(.*)', line)
            if m:
                fixed.append(dict(pid=m.group(1), commit=m.group(2),
                                  what=m.group(3)))
    except IOError:
        pass
    return findings, fixed


# ---------------------------------------------------------------------------
# Replays / evidence

def write_replay(pid, kind, payload):
    os.makedirs(REPLAYS, exist_ok=True)
    blob = json.dumps(payload, sort_keys=True, default=repr)
    h = hashlib.sha1(blob.encode()).hexdigest()[:12]
    path = os.path.join(REPLAYS, '%s-%s-%s.json' % (pid, kind, h))
    doc = dict(property=pid, kind=kind,
               rerun='./check %s --replay %s' % (pid, path))
    doc.update(payload)
    with open(path, 'w') as f:
        json.dump(doc, f, indent=1, sort_keys=True, default=repr)
    return path


def write_evidence(pid, tier, seed, coverage, wall, violations,
                   assumptions=None):
    os.makedirs(EVIDENCE, exist_ok=True)
    doc = dict(property_id=pid, tier=tier, seed=seed, level='proof',
               coverage=coverage, wall_s=round(wall, 2),
               violations=violations, assumptions=assumptions or [])
    path = os.path.join(EVIDENCE, pid + '.json')
    with open(path + '.tmp', 'w') as f:
        json.dump(doc, f, indent=1, sort_keys=True, default=repr)
    os.rename(path + '.tmp', path)
    return path
