"""Base driver for the properties decided on the channel state machine."""
import random

from harness import chanrt, changen, core
from harness.concdrv import ConcMixin


class ChanDriver(ConcMixin):
    PID = None
    PROP = None                 # Coq predicate : scenario -> list opobs -> bool
    PROFILES = []               # (profile name, quick count, thorough count)
    MODEL_TARGETS = ['Model/Chan.vo', 'Model/ChanProps.vo']
    CHUNK = 80
    EXHAUSTIVE = {'quick': False, 'thorough': False}
    ASSUMPTIONS = [
        'one application thread per scenario; the reader runs whenever the '
        'application sleeps (one scripted batch of inbound frames per sleep)',
        'the peer is a conforming broker: replies in request order, content '
        'frames of one method contiguous per channel']
    TRUSTED = ['scenario runner harness/chanrt.py (virtual runtime, silent '
               'recording broker)']
    KNOWN_KEYS = {}

    @property
    def SPEC(self):
        return dict(
            header='From AV Require Import Lib.Base Model.Chan Model.ChanProps.\n'
                   'Local Open Scope Z_scope.',
            tin='(nat * list step)', tobs='(list opobs)', eqb='chan_obs_eqb',
            model='chan_model', prop=self.PROP, nontriv='nontrivial_run')

    def make_case(self, nchan, steps, profile=None):
        steps = [(c, tuple(op), [[(cc, tuple(f)) for cc, f in t] for t in sc])
                 for c, op, sc in steps]
        results = []
        try:
            with core.case_alarm(12):
                obs = chanrt.run_scenario(nchan, steps, results)
        except core.Broken:
            raise
        except (Exception, core.CaseTimeout) as why:     # the runner itself failed: a broken tie
            obs = '[]'
            return dict(cin=chanrt.scenario_coq(nchan, steps), cobs=obs,
                        meta=dict(nchan=nchan, steps=_plain(steps),
                                  profile=profile, harness_error=repr(why)))
        return dict(cin=chanrt.scenario_coq(nchan, steps), cobs=obs,
                    meta=dict(nchan=nchan, steps=_plain(steps), profile=profile,
                              results=results))

    def corpus(self):
        return []

    def corpus_cases(self):
        return [self.make_case(n, s, 'corpus') for n, s in self.corpus()]

    def cases(self, tier, seed):
        rnd = random.Random(seed)
        out = []
        try:
            for prof, nq, nt in self.PROFILES:
                for _ in range(nq if tier == 'quick' else nt):
                    nchan, steps = changen.PROFILES[prof](rnd, tier)
                    out.append(self.make_case(nchan, steps, prof))
            out += self.conc_cases(tier, seed)
        except core.Broken:
            # repeated wall-clock time-outs: keep what was run (the timed-out
            # cases are reported as disagreements, with their scenarios)
            pass
        return out

    def replay_cases(self, doc):
        m = doc['case']
        if m.get('conc'):
            return self.conc_replay(m)
        return [self.make_case(m['nchan'], _unplain(m['steps']), m.get('profile'))]

    def search_cases(self, tier, seed, focus):
        return self.cases('thorough', seed + 1)

    def shrink(self, case):
        """Greedy: drop one step at a time while the predicate stays false."""
        from harness.run import evaluate
        cur = case
        if case['meta'].get('conc') or case['meta'].get('harness_error'):
            return case
        for _ in range(4):
            steps = _unplain(cur['meta']['steps'])
            if len(steps) <= 1:
                break
            try:
                cands = [self.make_case(cur['meta']['nchan'], steps[:j] + steps[j + 1:],
                                        cur['meta'].get('profile'))
                         for j in range(len(steps))]
                res, dis, vio = evaluate(self, cands, tag='shrink')
            except Exception:
                break
            same = [c for c in vio if self.fingerprint(c) == self.fingerprint(case)]
            if not same:
                break
            cur = min(same, key=lambda c: len(c['meta']['steps']))
        return cur

    def fingerprint(self, case):
        return None

    def stats(self, cases):
        st = {'profiles': {}, 'ops': {}, 'steps': 0, 'harness_errors': 0}
        for c in cases:
            m = c['meta']
            if m.get('conc'):
                cs = st.setdefault('concurrent', {'runs': 0, 'threads': 0, 'schedule_steps': 0,
                                                  'hangs': 0, 'line_p': {}})
                cs['runs'] += 1
                cs['threads'] += len(m['scenario']['threads'])
                cs['schedule_steps'] += len(m.get('decisions') or [])
                cs['hangs'] += 1 if m.get('hang') else 0
                cs['line_p'][str(m['line_p'])] = cs['line_p'].get(str(m['line_p']), 0) + 1
            st['profiles'][m['profile']] = st['profiles'].get(m['profile'], 0) + 1
            st['steps'] += len(m['steps'])
            st['harness_errors'] += 1 if m.get('harness_error') else 0
            for _, op, _ in m['steps']:
                st['ops'][op[0]] = st['ops'].get(op[0], 0) + 1
        return st


def _plain(steps):
    return [[c, [x.decode('latin-1') if isinstance(x, bytes) else x for x in op],
             [[[cc, [f[0], f[1], f[2].decode('latin-1')]] for cc, f in t] for t in sc]]
            for c, op, sc in steps]


def _unplain(steps):
    out = []
    for c, op, sc in steps:
        op2 = [op[0]] + [x.encode('latin-1') if isinstance(x, str) and op[0] in ('consume', 'cancel') else x
                         for x in op[1:]]
        sc2 = [[(cc, (f[0], f[1], f[2].encode('latin-1') if isinstance(f[2], str) else f[2]))
                for cc, f in t] for t in sc]
        out.append((c, tuple(op2), sc2))
    return out
