"""Concurrent scenarios: several application threads drive the real library on
the concurrent runtime (harness/crt.py) against the reactive reference broker.

A scenario is
    dict(nchan, confirm=[chan..], consumers=[(chan, tag)..],
         threads=[[(chan, op)...], ...], events=[(trigger, action)...])
with op one of
    ('declare', name) ('publish', body, mandatory) ('get',) ('close', code)
    ('ack',) ('consume', tag) ('cancel', tag) ('open',) ('check',)
    ('conn_close',)
Broker behaviour: Queue.DeclareOk echoes the queue name; in confirm mode a
message whose body starts with b'N' is nacked, b'R' returned then acked,
anything else acked; events fire when the broker has received `trigger`
frames from the client after the set-up: ('chclose', chan, code),
('connclose', code), ('drop',), ('deliver', chan, tag, body),
('return', chan, code).

The observation is what each operation returned or raised, the frames the
broker received in wire order, the per-channel end state and the runtime
inventory; the schedule (list of task names) is kept for the replay.
"""
from harness import core
core.setup_path()

from harness import cconn, crt          # noqa: E402
from harness.core import coq_N, coq_Z, coq_nat, coq_bool, coq_list, coq_bytes   # noqa: E402
from harness.chanrt import err_coq, WNAMES   # noqa: E402


def run(scn, seed, line_p=0.05, stick=0.5, decisions=None, rpc_timeout=2):
    import amqpstorm
    from pamqp import specification as spec
    bcfg = {}
    if scn.get('channel_max'):
        bcfg['channel_max'] = scn['channel_max']
    if scn.get('frame_max'):
        bcfg['frame_max'] = scn['frame_max']
    rt, br, conn = cconn.new_connection(
        seed, rt_kw=dict(line_p=0.0, stick=stick, decisions=decisions), timeout=1,
        broker_cfg=bcfg or None, heartbeat=scn.get('heartbeat', 0))
    br.strict_close = True
    st = {'chans': {}, 'sinks': {}, 'need': {}}
    nack = []

    class Done(Exception):
        pass

    def sink_cb(c):
        def cb(message):
            lst = st['sinks'].setdefault(c, [])
            lst.append(message)
            need = st['need'].get(c)
            if need is not None and len(lst) >= need:
                raise Done()
        return cb

    def published(b, ch, m, h, body):
        if ch not in st.get('confirming', ()):
            return
        st.setdefault('pubseq', {}).setdefault(ch, 0)
        st['pubseq'][ch] += 1
        n = st['pubseq'][ch]
        if body[:1] == b'N':
            b.send(ch, spec.Basic.Nack(delivery_tag=n))
        elif body[:1] == b'R' and m.mandatory:
            b.return_message(ch, 312, 'NO_ROUTE', body)
            b.send(ch, spec.Basic.Ack(delivery_tag=n))
        else:
            b.send(ch, spec.Basic.Ack(delivery_tag=n))
    br.handlers['@published'] = published

    def setup():
        conn.open()
        for c in range(1, scn['nchan'] + 1):
            ch = conn.channel(rpc_timeout=rpc_timeout)
            st['chans'][int(ch)] = ch
        st['confirming'] = set()
        for c in scn.get('confirm', []):
            st['chans'][c].confirm_deliveries()
            st['confirming'].add(c)
        for c, tag in scn.get('consumers', []):
            st['chans'][c].basic.consume(sink_cb(c), 'q', consumer_tag=tag)
    if scn.get('no_setup'):
        st['confirming'] = set()
        if scn.get('eof_on_connect'):
            old_attach = rt.on_connect

            def attach_and_drop(sock):
                old_attach(sock)
                br.drop('eof')
            rt.on_connect = attach_and_drop
    else:
        t0 = rt.spawn('setup', setup)
        try:
            rt.run()
        except crt.Hang as why:
            rt.teardown()
            raise RuntimeError('set-up hangs: %s' % why)
        if t0.exc is not None:
            rt.teardown()
            raise RuntimeError('set-up failed: %r' % (t0.exc,))
    if scn.get('slow_closeok'):
        def hold(b, ch, fr):
            b.release_at = rt.now + scn['slow_closeok']
            return False
        br.handlers['Connection.Close'] = hold
    mark = len(br.ledger_in)
    rt.line_p = line_p
    if scn.get('max_steps'):
        rt.max_steps = rt.steps + scn['max_steps']
    if scn.get('partial'):
        import errno
        import socket as real_socket
        prnd = rt.rnd

        def policy(sock, data):
            r = prnd.random()
            if r < 0.15:
                raise real_socket.timeout('timed out')
            if r < 0.3:
                raise BlockingIOError(errno.EAGAIN, 'Resource temporarily unavailable')
            if r < 0.8:
                return prnd.randrange(1, max(2, min(len(data), 400)))
            return prnd.randrange(1, len(data) + 1)
        rt.send_policy = policy
    results = {}

    # broker events by number of client frames seen after the set-up
    events = sorted(scn.get('events', []), key=lambda e: e[0])
    fired = []
    delivered = []

    ev_t0 = [None]

    def ev_due():
        # a trigger the client never reaches fires by (virtual) time instead
        if ev_t0[0] is None:
            ev_t0[0] = rt.now
        return ev_t0[0] + 0.15 * (len(fired) + 1)

    def ev_ready():
        return bool(events) and (len(br.ledger_in) - mark >= events[0][0] or rt.now >= ev_due())

    def ev_step():
        trig, act = events.pop(0)
        fired.append(act)
        k = act[0]
        if k == 'chclose':
            br.close_channel(act[1], act[2], 'BROKER-%d' % act[2])
        elif k == 'connclose':
            br.close_connection(act[1], 'BROKER-%d' % act[1])
        elif k == 'drop':
            br.drop('eof')
        elif k == 'deliver':
            st['dtag'] = st.get('dtag', 0) + 1
            br.deliver_message(act[1], act[2].decode('latin-1'), st['dtag'], act[3])
            delivered.append((act[1], act[3]))
        elif k == 'bcancel':
            br.broker_cancel(act[1], act[2].decode('latin-1'))
        elif k == 'return':
            br.return_message(act[1], act[2], 'NO_ROUTE', b'ret')
    pev = crt.Pseudo('broker-event', ev_ready, ev_step)
    pev.wake = lambda: (ev_due() if events else None)
    rt.pseudo.append(pev)

    def do(c, op):
        k = op[0]
        if k == 'open':
            ch = conn.channel(rpc_timeout=rpc_timeout)
            st['chans'].setdefault(int(ch), ch)
            return '(CRChan %s)' % coq_nat(int(ch))
        if k == 'conn_close':
            conn.close()
            return 'CRNone'
        if k == 'conn_open':
            conn.open()
            return 'CRNone'
        if k == 'stop':
            st['chans'][c].stop_consuming()
            return 'CRNone'
        if k == 'drain':
            ch = st['chans'][c]
            got = st['sinks'].setdefault(c, [])
            st['need'][c] = len(got) + op[1]
            er = 'None'
            try:
                # as start_consuming does: keep processing until the channel closes
                while not ch.is_closed and len(got) < st['need'][c]:
                    ch.process_data_events()
            except Done:
                pass
            except crt.TaskKilled:
                raise
            except Exception as why:
                ec = err_coq(why)
                if not ec:
                    st.setdefault('other', []).append(repr(why))
                    return 'CROther'
                er = '(Some %s)' % ec
            finally:
                st['need'][c] = None
            return '(CRBodies %s %s)' % (coq_list([coq_bytes(m._body) for m in got]), er)
        if k == 'cbcancel':
            # a consumer that cancels itself from inside its callback, on its first message
            # (op[2]: the callback takes the tuple form)
            ch = st['chans'][c]
            tag = op[1].decode('latin-1')
            seen = []

            def cb(*args):
                seen.append(1)
                if len(seen) == 1:
                    ch.basic.cancel(tag)
                    raise Done()
            ch.basic.consume(cb, 'q', consumer_tag=tag)
            st['dtag'] = st.get('dtag', 0) + 1
            br.deliver_message(c, tag, st['dtag'], b'cb')
            try:
                while not ch.is_closed and not seen:
                    ch.process_data_events(to_tuple=op[2])
            except Done:
                pass
            return 'CRNone'
        if k == 'sync_timer':
            # wait until the instant the next heartbeat timer is due
            due = [t.deadline for t in rt.timers if t.armed]
            if due:
                rt.yield_('blocked', wake=min(due))
            return 'CRNone'
        ch = st['chans'][c]
        if k == 'declare':
            r = ch.queue.declare(op[1].decode('latin-1'))
            return '(CRName %s)' % coq_bytes(r['queue'].encode('latin-1'))
        if k == 'publish':
            r = ch.basic.publish(op[1], 'rk', mandatory=op[2])
            return 'CRNone' if r is None else '(CRBool %s)' % coq_bool(r)
        if k == 'get':
            r = ch.basic.get('q')
            return 'CRNone' if r is None else '(CRMsg %s)' % coq_bytes(r._body)
        if k == 'close':
            ch.close(op[1], 'app-%d' % op[1])
            return 'CRNone'
        if k == 'ack':
            ch.basic.ack(1)
            return 'CRNone'
        if k == 'consume':
            r = ch.basic.consume(sink_cb(c), 'q', consumer_tag=op[1].decode('latin-1'))
            return '(CRTag %s)' % coq_bytes(r.encode('latin-1') if isinstance(r, str) else r)
        if k == 'cancel':
            ch.basic.cancel(op[1].decode('latin-1'))
            return 'CRNone'
        if k == 'check':
            ch.check_for_errors()
            return 'CRNone'
        raise ValueError(op)

    order = []
    extra = {}

    def at_return():
        from harness.chanrt import STATES as _ST
        inv = rt.inventory()
        socks = sum(1 for s in rt.sockets if s.connected and not s.closed)
        return '(%s, (%s, %s, %s))' % (_ST[conn.current_state], coq_nat(socks),
                                       coq_nat(inv['live_threads']), coq_nat(inv['armed_timers']))

    def worker(i, ops):
        def f():
            for j, (c, op) in enumerate(ops):
                t_start = rt.now
                try:
                    r = do(c, op)
                except crt.TaskKilled:
                    results[(i, j)] = 'CRHang'
                    raise
                except Exception as why:
                    ec = err_coq(why)
                    r = '(CRErr %s)' % ec if ec else 'CROther'
                    if not ec:
                        st.setdefault('other', []).append(repr(why))
                results[(i, j)] = r
                extra[(i, j)] = (int(round((rt.now - t_start) * 1000)), at_return())
                order.append((i, j))
        return f
    for i, ops in enumerate(scn['threads']):
        for j in range(len(ops)):
            results[(i, j)] = 'CRHang'
        rt.spawn('T%d' % i, worker(i, ops))
    hang = None
    try:
        rt.run()
    except crt.Hang as why:
        hang = str(why)
    # let the environment settle: the broker reads what is left on the wire,
    # its pending frames (and events already due) reach the reader
    if hang is None:
        try:
            rt.line_p = 0.0
            rt.settle()
        except crt.Hang as why:
            hang = 'settle: %s' % why
    snaps = {}
    for c, ch in sorted(st['chans'].items()):
        snaps[c] = ch
    final = coq_list(['(%s, %s)' % (coq_nat(c), csnap(conn, ch)) for c, ch in sorted(snaps.items())])
    inv = rt.inventory()
    conn_state = conn.current_state
    crashes = [(t.name, repr(t.exc), getattr(t, 'tb', '')[-600:]) for t in rt.tasks
               if t.kind != 'app' and t.exc is not None]
    states = [(t.name, t.kind, t.state, t.wake) for t in rt.tasks if not t.done]
    rt.teardown()
    wire = [(ch, fr) for (_, ch, fr, _) in br.ledger_in[mark:]]
    events_coq = coq_list([
        '{| ce_thread := %s; ce_idx := %s; ce_chan := %s; ce_op := %s; ce_res := %s; '
        'ce_dur := %s; ce_ret := %s |}' % (
            coq_nat(i), coq_nat(j), coq_nat(c), cop_coq(op), results[(i, j)],
            coq_Z(extra.get((i, j), (99999, ''))[0]),
            extra.get((i, j), (0, '(OPEN, (9, 9, 9)%nat)'))[1])
        for i, ops in enumerate(scn['threads']) for j, (c, op) in enumerate(ops)])
    from harness.chanrt import STATES
    socks = sum(1 for s in rt.sockets if s.connected and not s.closed)
    obs = ('{| co_events := %s; co_wire := %s; co_final := %s; co_parse_ok := %s; '
           'co_violations := %s; co_fired := %s; co_conn := %s; co_inv := (%s, %s, %s); '
           'co_btags := %s; co_delivered := %s |}' % (
               events_coq, coq_list([wire_coq(ch, fr) for ch, fr in wire]), final,
               coq_bool(br.parse_error is None),
               coq_nat(len([v for v in br.violations if scn.get('viol_filter', '') in v])),
               coq_nat(len(fired)), STATES[conn_state],
               coq_nat(socks), coq_nat(inv['live_threads']), coq_nat(inv['armed_timers']),
               coq_list(['(%s, %s)' % (coq_nat(c), coq_list([coq_bytes(t.encode('latin-1')) for t in tags]))
                         for c, tags in sorted(br.consumers.items())]),
               coq_list(['(%s, %s)' % (coq_nat(c), coq_bytes(b)) for c, b in delivered])))
    info = dict(results={'%d.%d' % k: v for k, v in results.items()},
                wire=[(ch, fr.name) for ch, fr in wire], hang=hang,
                decisions=list(rt.decisions), violations=list(br.violations),
                other=st.get('other', []), steps=rt.steps, inventory=inv,
                thread_crashes=crashes, live_tasks=states,
                log=rt.log[-40:])
    return obs, info


def csnap(conn, ch):
    from harness.chanrt import snap_of
    return snap_of(conn, ch)


def cop_coq(op):
    k = op[0]
    if k == 'declare':
        return '(CDeclare %s)' % coq_bytes(op[1])
    if k == 'publish':
        return '(CPublish %s %s)' % (coq_bytes(op[1]), coq_bool(op[2]))
    if k == 'close':
        return '(CClose %s)' % coq_Z(op[1])
    if k == 'consume':
        return '(CConsume %s)' % coq_bytes(op[1])
    if k in ('cancel', 'cbcancel'):
        return '(CCancel %s)' % coq_bytes(op[1])
    if k == 'drain':
        return '(CDrain %s)' % coq_nat(op[1])
    if k == 'stop':
        return 'CStop'
    return {'get': 'CGet', 'ack': 'CAck', 'open': 'COpenChan', 'check': 'CCheck',
            'conn_close': 'CConnClose', 'conn_open': 'CConnOpen', 'sync_timer': 'CCheck'}[k]


def wire_coq(ch, fr):
    name = fr.name
    w = WNAMES.get(name, 'WRequest 99')
    if ' ' in w:
        w = '(%s%%nat)' % w
    s = b''
    num = 0
    if name == 'Queue.Declare':
        s = fr.queue.encode('latin-1')
    elif name == 'Channel.Close':
        num = fr.reply_code
    elif name in ('Basic.Consume', 'Basic.Cancel'):
        s = fr.consumer_tag.encode('latin-1')
    elif name == 'ContentBody':
        num = len(fr.value)          # the length is all the predicates look at
    elif name == 'ContentHeader':
        num = fr.body_size
    return '{| wf_chan := %s; wf_name := %s; wf_str := %s; wf_num := %s |}' % (
        coq_nat(ch), w, coq_bytes(s), coq_Z(num))


def scenario_coq(scn):
    evs = []
    for _, act in scn.get('events', []):
        k = act[0]
        evs.append({'chclose': lambda: '(EvChClose %s %s)' % (coq_nat(act[1]), coq_Z(act[2])),
                    'connclose': lambda: '(EvConnClose %s)' % coq_Z(act[1]),
                    'drop': lambda: 'EvDrop',
                    'deliver': lambda: '(EvDeliver %s)' % coq_nat(act[1]),
                    'bcancel': lambda: '(EvDeliver %s)' % coq_nat(act[1]),
                    'return': lambda: '(EvReturn %s %s)' % (coq_nat(act[1]), coq_Z(act[2]))}[k]())
    return ('{| cs_nchan := %s; cs_threads := %s; cs_confirm := %s; cs_events := %s |}' % (
        coq_nat(scn['nchan']),
        coq_list([coq_list(['(%s, %s)' % (coq_nat(c), cop_coq(op)) for c, op in ops])
                  for ops in scn['threads']]),
        coq_list([coq_nat(c) for c in scn.get('confirm', [])]),
        coq_list(evs)))
