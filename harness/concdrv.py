"""Concurrent case families for the channel drivers.

A family = (name, scenario generator, Coq predicate, quick count, thorough
count).  Each case runs one scenario under one seeded schedule on the real
library (harness/concrt.py); the predicate is evaluated in Coq on the
observation.  There is no model comparison for these cases: the tie of the
concurrency theorems to the source is the lock/statement-order translator
(translator/py2coq_conc.py -> Gen/GenConc.v); the schedules explored here are
the search for a concrete failing interleaving and a test of the predicates
on the real code.
"""
import random

from harness import concrt

HEADER = ('From AV Require Import Lib.Base Model.Chan Model.ConcObs.\n'
          'Local Open Scope Z_scope.')


def spec(prop):
    return dict(header=HEADER, tin='cscenario', tobs='cobs',
                eqb='(fun (_ : unit) (_ : cobs) => true)', model='(fun _ : cscenario => tt)',
                prop=prop, nontriv='conc_nontrivial')


class ConcMixin(object):
    """CONC = [(family, generator(rnd) -> scenario, prop, nquick, nthorough)]"""
    CONC = []
    LINE_P = [0.0, 0.03, 0.1, 0.25]

    @property
    def SPECS(self):
        return dict((fam, spec(prop)) for fam, _, prop, _, _ in self.CONC)

    def conc_case(self, fam, scn, seed, line_p, decisions=None):
        from harness import core
        try:
            with core.case_alarm(60):
                obs, info = concrt.run(scn, seed, line_p=line_p, decisions=decisions)
        except core.Broken:
            raise
        except (Exception, core.CaseTimeout) as why:
            return dict(spec=fam, cin=concrt.scenario_coq(scn),
                        cobs='{| co_events := []; co_wire := []; co_final := []; '
                             'co_parse_ok := false; co_violations := 1%nat; co_fired := 0%nat; '
                             'co_conn := OPEN; co_inv := (9, 9, 9)%nat; co_btags := []; '
                             'co_delivered := [] |}',
                        meta=dict(conc=fam, scenario=_plain(scn), seed=seed, line_p=line_p,
                                  harness_error=repr(why), profile='conc:' + fam, steps=[]))
        return dict(spec=fam, cin=concrt.scenario_coq(scn), cobs=obs,
                    meta=dict(conc=fam, scenario=_plain(scn), seed=seed, line_p=line_p,
                              decisions=info['decisions'], results=info['results'],
                              wire=info['wire'], hang=info['hang'],
                              violations=info['violations'], other=info['other'],
                              thread_crashes=info['thread_crashes'], live_tasks=info['live_tasks'],
                              log=info['log'], profile='conc:' + fam, steps=[]))

    def conc_cases(self, tier, seed):
        rnd = random.Random(seed * 7919 + 17)
        from harness import core
        out = []
        try:
            for fam, gen, prop, nq, nt in self.CONC:
                for k in range(nq if tier == 'quick' else nt):
                    scn = gen(rnd)
                    out.append(self.conc_case(fam, scn, rnd.randrange(1 << 30),
                                              self.LINE_P[k % len(self.LINE_P)]))
        except core.Broken:
            pass
        return out

    def conc_replay(self, m):
        # a run is a function of (scenario, seed, line_p): re-running with the same seed repeats it
        # exactly; the recorded scheduler decisions are kept in the file for reading only (driving
        # the scheduler from them does not restore the other random draws of a run)
        return [self.conc_case(m['conc'], _unplain(m['scenario']), m['seed'], m['line_p'])]


def _plain(scn):
    def p(x):
        if isinstance(x, bytes):
            return {'b': x.decode('latin-1')}
        if isinstance(x, (list, tuple)):
            return [p(y) for y in x]
        if isinstance(x, dict):
            return dict((k, p(v)) for k, v in x.items())
        return x
    return p(scn)


def _unplain(scn):
    def u(x):
        if isinstance(x, dict) and set(x) == {'b'}:
            return x['b'].encode('latin-1')
        if isinstance(x, list):
            return tuple(u(y) for y in x)
        if isinstance(x, dict):
            return dict((k, u(v)) for k, v in x.items())
        return x
    d = u(scn)
    d['threads'] = [list(t) for t in d['threads']]
    return d


# ---------------------------------------------------------------------------
# scenario generators

def gen_rpc(rnd):
    """C05/C13: 2-3 threads issue declares and (confirmed) publishes on shared channels."""
    nchan = rnd.choice([1, 1, 2])
    confirm = [c for c in range(1, nchan + 1) if rnd.random() < 0.7]
    threads = []
    for t in range(rnd.choice([2, 2, 3])):
        ops = []
        for j in range(rnd.randrange(1, 4)):
            c = rnd.randrange(1, nchan + 1)
            if rnd.random() < 0.5:
                ops.append((c, ('declare', b'q%d_%d' % (t, j))))
            else:
                ops.append((c, ('publish', rnd.choice([b'A', b'N']) + b'%d%d' % (t, j), False)))
        threads.append(ops)
    if rnd.random() < 0.35:
        # a consumer whose callback issues a synchronous call of its own (cancels itself)
        c = rnd.randrange(1, nchan + 1)
        threads.append([(c, ('cbcancel', b'cb', rnd.random() < 0.6))])
    return dict(nchan=nchan, confirm=confirm, threads=threads)


def gen_close(rnd):
    """C11: the same channel closed by two or three threads, other traffic around."""
    nchan = rnd.choice([1, 2])
    threads = [[(1, ('close', 320 + t))] for t in range(rnd.choice([2, 2, 3]))]
    if rnd.random() < 0.5:
        threads[0].insert(0, (1, ('declare', b'qq')))
    if nchan == 2 and rnd.random() < 0.7:
        threads.append([(2, ('declare', b'other')), (2, ('publish', b'Ax', False))])
    cons = [(1, b'ct')] if rnd.random() < 0.4 else []
    return dict(nchan=nchan, threads=threads, consumers=cons)


def gen_connclose(rnd):
    """C11 (last clause): connection.close() from 1-3 threads, channels busy or idle."""
    nchan = rnd.choice([0, 1, 2])
    threads = [[(0, ('conn_close',))] for _ in range(rnd.choice([1, 2, 2, 3]))]
    if rnd.random() < 0.3:
        threads[0].append((0, ('conn_close',)))          # and once more afterwards
    for c in range(1, nchan + 1):
        if rnd.random() < 0.5:
            threads.append([(c, rnd.choice([('declare', b'k%d' % c), ('publish', b'Ax', False)]))])
    return dict(nchan=nchan, threads=threads, heartbeat=rnd.choice([0, 60]))


def gen_alloc(rnd):
    """C10: several threads open channels at once, others close existing ones;
    a small channel_max forces numbers to be reused."""
    nchan = rnd.choice([0, 1, 2, 3])
    threads = [[(0, ('open',)) for _ in range(rnd.randrange(1, 3))]
               for _ in range(rnd.choice([2, 3, 4]))]
    for c in range(1, nchan + 1):
        if rnd.random() < 0.6:
            threads.append([(c, ('close', 200))])
            if rnd.random() < 0.4:
                # the same channel closed by a second thread at the same time
                threads.append([(c, ('close', 201))])
    nopen = sum(len(t) for t in threads if t[0][1][0] == 'open')
    ev = []
    if nchan and rnd.random() < 0.5:
        # the broker closes one of the existing channels while the others open new ones
        ev = [(rnd.randrange(0, 2), ('chclose', rnd.randrange(1, nchan + 1), 404))]
    # only what the broker says about Channel.Open counts here (an application close crossing
    # the broker's close of the same channel is not a channel-number matter)
    return dict(nchan=nchan, threads=threads, events=ev, viol_filter='Channel.Open',
                channel_max=rnd.choice([0, nchan + nopen, nchan + nopen + 1, max(1, nchan)]))


def gen_chclose(rnd):
    """C07: the broker closes channel 1 while threads work on channels 1 and 2."""
    threads = []
    for t in range(rnd.choice([1, 2])):
        ops = [(1, rnd.choice([('declare', b'q%d' % t), ('check',), ('ack',),
                               ('publish', b'Ap', False)]))
               for _ in range(rnd.randrange(1, 4))]
        threads.append(ops)
    threads.append([(2, ('declare', b'o%d' % j)) for j in range(rnd.randrange(1, 3))])
    code = rnd.choice([404, 406, 403])
    return dict(nchan=2, threads=threads, events=[(rnd.randrange(0, 3), ('chclose', 1, code))],
                code=code)


def gen_connclose_code(rnd):
    """C07: the broker closes the CONNECTION with an error code while threads work."""
    nchan = rnd.choice([1, 2])
    threads = []
    for t in range(rnd.choice([1, 2, 3])):
        c = rnd.randrange(1, nchan + 1)
        threads.append([(c, rnd.choice([('declare', b'q%d' % t), ('check',), ('ack',),
                                        ('publish', b'Ap', False)]))
                        for _ in range(rnd.randrange(1, 4))])
    code = rnd.choice([320, 501, 541])
    return dict(nchan=nchan, threads=threads, events=[(rnd.randrange(0, 3), ('connclose', code))])


def gen_fault(rnd):
    """C06: the socket dies while 1-3 threads declare / publish / open channels / ack."""
    nchan = rnd.choice([1, 2])
    threads = []
    for t in range(rnd.choice([1, 2, 3])):
        ops = []
        for j in range(rnd.randrange(1, 4)):
            c = rnd.randrange(1, nchan + 1)
            ops.append((c, rnd.choice([('declare', b'f%d%d' % (t, j)), ('publish', b'Ap', False),
                                       ('open',), ('open',), ('ack',), ('check',)])))
        threads.append(ops)
    return dict(nchan=nchan, threads=threads, confirm=[1] if rnd.random() < 0.3 else [],
                events=[(rnd.randrange(0, 4), ('drop',))])


def gen_openfault(rnd):
    """C06: the peer closes the socket right after accepting it, open() in progress."""
    return dict(nchan=0, threads=[[(0, ('conn_open',))]], no_setup=True, eof_on_connect=True)


def gen_tags(rnd):
    """C14: threads consume / cancel / stop_consuming on shared channels; the broker may cancel."""
    nchan = rnd.choice([1, 1, 2])
    pre = [(1, b'pre%d' % k) for k in range(rnd.choice([0, 1, 2]))]
    threads = []
    for t in range(rnd.choice([2, 2, 3])):
        ops = []
        mine = []
        for j in range(rnd.randrange(1, 4)):
            c = rnd.randrange(1, nchan + 1)
            r = rnd.random()
            if r < 0.5 or not (mine or pre):
                tag = b't%d_%d' % (t, j)
                ops.append((c, ('consume', tag)))
                mine.append((c, tag))
            elif r < 0.8:
                cc, tag = rnd.choice(mine + pre)
                ops.append((cc, ('cancel', tag)))
                if (cc, tag) in mine:
                    mine.remove((cc, tag))
            else:
                ops.append((c, ('stop',)))
        threads.append(ops)
    ev = []
    if pre and rnd.random() < 0.4:
        ev = [(rnd.randrange(0, 4), ('bcancel', 1, pre[0][1]))]
    return dict(nchan=nchan, threads=threads, consumers=pre, events=ev)


def gen_consume_add(rnd):
    """C14: a thread keeps consuming (process_data_events) while another registers a new
    consumer on the same channel; the broker starts delivering to it right away."""
    n = rnd.randrange(2, 5)
    ev = [(0, ('deliver', 1, b'ct', b'a0'))]
    for j in range(1, n):
        ev.append((1, ('deliver', 1, rnd.choice([b'c2', b'c2', b'ct']), b'm%d' % j)))
    threads = [[(1, ('drain', n))], [(1, ('consume', b'c2'))]]
    if rnd.random() < 0.3:
        threads.append([(1, ('declare', b'x'))])
    return dict(nchan=1, threads=threads, consumers=[(1, b'ct')], events=ev, max_steps=12000)


def gen_consume(rnd):
    """C03: one thread drains n deliveries while the broker sends them (bodies of 0-3 frames)
    mixed with returned messages, and other threads publish / ack / declare on the same channel."""
    n = rnd.randrange(1, 6)
    ev = []
    k = 0
    for j in range(n):
        ev.append((k, ('deliver', 1, b'ct', bytes([97 + j]) * rnd.choice([0, 1, 5, 1016, 1017, 2100]))))
        if rnd.random() < 0.3:
            ev.append((k, ('return', 1, 312)))
        k += rnd.choice([0, 0, 1])
    threads = [[(1, ('drain', n))]]
    for t in range(rnd.choice([0, 1, 2])):
        threads.append([(1, rnd.choice([('publish', b'Ap', False), ('ack',), ('declare', b'd%d' % t)]))
                        for _ in range(rnd.randrange(1, 3))])
    return dict(nchan=1, threads=threads, consumers=[(1, b'ct')], events=ev, frame_max=1024,
                max_steps=12000)


def gen_returns(rnd):
    """C07: 1-3 returned messages arrive while 2-3 threads call into the same channel."""
    threads = []
    for t in range(rnd.choice([2, 2, 3])):
        threads.append([(1, rnd.choice([('declare', b'r%d%d' % (t, j)), ('check',), ('ack',),
                                        ('publish', b'Ap', False)]))
                        for j in range(rnd.randrange(1, 4))])
    ev = [(rnd.randrange(0, 3), ('return', 1, rnd.choice([312, 313]))) for _ in range(rnd.choice([1, 2, 3]))]
    return dict(nchan=1, threads=threads, events=ev)


def gen_wire(rnd):
    """C01: publishers (bodies of 0..3 frames), acks and calls on shared and separate channels."""
    nchan = rnd.choice([1, 2, 2])
    threads = []
    for t in range(rnd.choice([2, 3, 4])):
        ops = []
        for j in range(rnd.randrange(1, 4)):
            c = rnd.randrange(1, nchan + 1)
            r = rnd.random()
            if r < 0.6:
                size = rnd.choice([0, 1, 5, 1016, 1017, 2500])
                ops.append((c, ('publish', bytes([65 + t]) * size, False)))
            elif r < 0.8:
                ops.append((c, ('ack',)))
            else:
                ops.append((c, ('declare', b'w%d%d' % (t, j))))
        threads.append(ops)
    return dict(nchan=nchan, threads=threads, frame_max=1024, partial=True)
