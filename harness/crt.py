"""Concurrent virtual runtime: the real amqpstorm code on real OS threads, of
which exactly one runs at any moment, chosen by a seeded scheduler.

Every library thread (application callers, the reader thread created by
IO.open, the heartbeat timers) is a *task*.  A task runs until it reaches a
yield point and then hands control back to the controller, which picks the
next runnable task from a PRNG state (or from a recorded decision list when a
schedule is replayed).  Yield points:

  * virtual locks (threading.Lock / RLock of the library modules): before the
    acquisition, blocked while the lock is held, after the release
  * time.sleep: blocked until the virtual clock reaches the wake time
  * poll/select: blocked until the socket is readable or the time-out passes
  * socket.send: before the bytes are handed over (and the socket may take
    only part of them, or refuse: `send_policy`)
  * Thread.start / Thread.join / Timer.start
  * optionally every source line of amqpstorm (sys.settrace), with
    probability `line_p` - this is what reaches races between two plain
    statements (check-then-act on a flag, lists shared without a lock)

The virtual clock only moves when no task is runnable (discrete-event
simulation); pseudo tasks (the reference broker) run inline in the
controller and are scheduled like the others.
"""
import random
import sys
import threading as real_threading
import traceback

from harness import vrt

REPO_PREFIX = '/repo/amqpstorm/'


class TaskKilled(BaseException):
    """Unwinds a task that is still blocked when the scenario is torn down."""


class Hang(Exception):
    """No task can make progress (or the step budget is exhausted)."""


class Task(object):
    def __init__(self, rt, name, fn, daemon=False, kind='app'):
        self.rt = rt
        self.name = name
        self.fn = fn
        self.daemon = daemon
        self.kind = kind              # app | thread | timer
        self.sem = real_threading.Semaphore(0)
        self.state = 'new'            # new ready running blocked done
        self.cond = None
        self.wake = None
        self.result = None
        self.exc = None
        self.kill = False
        self.steps = 0
        self.thread = real_threading.Thread(target=self._run, name='task-' + name)
        self.thread.daemon = True

    def _run(self):
        self.sem.acquire()
        self.rt._local.task = self
        try:
            if self.kill:
                raise TaskKilled()
            if self.rt.line_p > 0:
                sys.settrace(self.rt._tracer)
            self.result = self.fn()
        except TaskKilled:
            self.exc = None
        except BaseException as why:     # noqa
            self.exc = why
            self.tb = traceback.format_exc()
        finally:
            sys.settrace(None)
            self.state = 'done'
            self.rt._ctl.release()

    @property
    def done(self):
        return self.state == 'done'


class Pseudo(object):
    """Inline task (environment): `ready()` and `step()`."""

    def __init__(self, name, ready, step):
        self.name = name
        self.ready = ready
        self.step = step
        self.kind = 'pseudo'


class CRuntime(vrt.Runtime):
    concurrent = True

    def __init__(self, seed=0, line_p=0.0, stick=0.5, max_steps=60000,
                 max_time=400.0, decisions=None):
        vrt.Runtime.__init__(self)
        self.rnd = random.Random(seed)
        self.seed = seed
        self.line_p = line_p
        self.stick = stick
        self.max_steps = max_steps
        self.max_time = max_time
        self.tasks = []
        self.pseudo = []
        self.cur = None
        self.steps = 0
        self.decisions = []              # names, in order (the schedule)
        self.forced = list(decisions) if decisions else None
        self._ctl = real_threading.Semaphore(0)
        self._local = real_threading.local()
        self.send_policy = None          # fn(sock, data) -> n | raises
        self.log = []                    # (step, task, event)
        self.tearing_down = False
        self.names = {}
        self.min_poll = 0.05

    # ---- tasks --------------------------------------------------------------
    def uniq(self, base):
        n = self.names.get(base, 0)
        self.names[base] = n + 1
        return base if n == 0 else '%s#%d' % (base, n)

    def spawn(self, name, fn, daemon=False, kind='app', wake=None):
        t = Task(self, self.uniq(name), fn, daemon, kind)
        if wake is not None:
            t.wake = wake
        t.state = 'ready'
        self.tasks.append(t)
        t.thread.start()
        return t

    def current(self):
        return getattr(self._local, 'task', None)

    def yield_(self, state='ready', cond=None, wake=None):
        """Hand control back to the controller (from inside a task)."""
        t = self.current()
        if t is None:
            return False        # controller / pseudo task: never blocks
        if t.kill:
            raise TaskKilled()
        t.state = state
        t.cond = cond
        t.wake = wake
        self._ctl.release()
        t.sem.acquire()
        if t.kill:
            raise TaskKilled()
        return True

    def _runnable(self, t):
        if t.state == 'ready':
            return True
        if t.state == 'blocked':
            if t.cond is not None and t.cond():
                return True
            return t.wake is not None and t.wake <= self.now
        return False

    def _tracer(self, frame, event, arg):
        if not frame.f_code.co_filename.startswith(REPO_PREFIX):
            return None
        return self._line

    def _line(self, frame, event, arg):
        if event == 'line' and self.rnd.random() < self.line_p:
            t = self.current()
            if t is not None and not t.kill and not self.tearing_down:
                sys.settrace(None)
                try:
                    self.log.append((self.steps, t.name, 'line %s:%d' % (
                        frame.f_code.co_filename[len(REPO_PREFIX):], frame.f_lineno)))
                    self.yield_('ready')
                finally:
                    sys.settrace(self._tracer)
        return self._line

    # ---- controller ---------------------------------------------------------
    def settle(self):
        """Run whatever is runnable at the current instant (no clock advance)."""
        self.run(until=lambda: False, advance=False)

    def run(self, until=None, advance=True):
        """Schedule until `until()` holds (default: every app task is done)."""
        if until is None:
            until = lambda: all(t.done for t in self.tasks if t.kind == 'app')
        while not until():
            self.steps += 1
            if self.steps > self.max_steps or self.now > self.max_time:
                raise Hang('budget: steps=%d now=%.2f' % (self.steps, self.now))
            cands = [t for t in self.tasks if not t.done and self._runnable(t)]
            cands += [p for p in self.pseudo if p.ready()]
            if not cands and not advance:
                return
            if not cands:
                wakes = [t.wake for t in self.tasks
                         if not t.done and t.wake is not None and t.wake > self.now]
                wakes += [p.wake() for p in self.pseudo
                          if getattr(p, 'wake', None) and p.wake() is not None]
                if not wakes:
                    raise Hang('no task can make progress at t=%.2f' % self.now)
                self.now = min(wakes)
                continue
            pick = self._choose(cands)
            self.decisions.append(pick.name)
            if pick.kind == 'pseudo':
                pick.step()
                continue
            pick.state = 'running'
            pick.cond = None
            pick.wake = None
            pick.steps += 1
            self.cur = pick
            pick.sem.release()
            self._ctl.acquire()

    def _choose(self, cands):
        if self.forced:
            want = self.forced.pop(0)
            for c in cands:
                if c.name == want:
                    return c
            # the recorded schedule no longer fits: fall back to the PRNG
            self.forced = None
        if self.cur in cands and self.rnd.random() < self.stick:
            return self.cur
        return cands[self.rnd.randrange(len(cands))]

    def teardown(self):
        """Unwind every task that is still alive."""
        self.tearing_down = True
        for t in self.tasks:
            guard = 0
            while not t.done and guard < 50:
                guard += 1
                t.kill = True
                t.sem.release()
                self._ctl.acquire()
        for t in self.tasks:
            t.thread.join(timeout=1.0)

    # ---- clock --------------------------------------------------------------
    def sleep(self, dt):
        if self.current() is None:
            return
        self.yield_('blocked', wake=self.now + max(dt, 0.0))

    def advance(self, dt):
        self.sleep(dt)

    # ---- poll -----------------------------------------------------------------
    def poll_wait(self, socks, timeout_s):
        ready = lambda: any(s.readable or s.closed for s in socks)
        if not ready():
            # the library polls with a 1 ms time-out; an idle reader waking a thousand
            # times per virtual second only burns the step budget (it is woken at once
            # when data arrives or the socket is closed), so idle polls are coarsened
            self.yield_('blocked', cond=ready, wake=self.now + max(timeout_s, self.min_poll))
        else:
            self.yield_('ready')
        return [s for s in socks if s.readable and not s.closed]

    # ---- inventory -------------------------------------------------------------
    def inventory(self):
        return dict(
            open_sockets=sum(1 for s in self.sockets if not s.closed),
            live_threads=sum(1 for t in self.tasks if t.kind == 'thread' and not t.done),
            armed_timers=sum(1 for t in self.timers if t.armed),
        )

    # ---- factories used by the facades ----------------------------------------------
    def Lock(self):
        return CLock(self)

    def RLock(self):
        return CLock(self, reentrant=True)

    def Thread(self, *a, **k):
        return CThread(self, *a, **k)

    def Timer(self, *a, **k):
        return CTimer(self, *a, **k)


class CLock(object):
    def __init__(self, rt, reentrant=False):
        self.rt = rt
        self.reentrant = reentrant
        self.owner = None
        self.count = 0

    def _me(self):
        return self.rt.current() or 'controller'

    def acquire(self, blocking=True, timeout=-1):
        me = self._me()
        if self.reentrant and self.owner is me:
            self.count += 1
            return True
        self.rt.yield_('ready')
        if self.owner is not None:
            if not blocking:
                return False
            if me == 'controller':
                raise Hang('controller would block on a lock held by %r' % (self.owner,))
            wake = None if timeout is None or timeout < 0 else self.rt.now + timeout
            while self.owner is not None:
                self.rt.yield_('blocked', cond=lambda: self.owner is None, wake=wake)
                if self.owner is not None and wake is not None and self.rt.now >= wake:
                    return False
        self.owner = me
        self.count = 1
        return True

    def release(self):
        if self.owner is None:
            raise RuntimeError('release unlocked lock')
        if self.reentrant:
            if self.owner is not self._me():
                raise RuntimeError('cannot release un-acquired lock')
            self.count -= 1
            if self.count:
                return
        self.owner = None
        self.count = 0
        if not self.rt.tearing_down:
            try:
                self.rt.yield_('ready')
            except TaskKilled:
                raise

    def locked(self):
        return self.owner is not None

    __enter__ = acquire

    def __exit__(self, *a):
        self.release()


class CThread(object):
    def __init__(self, rt, group=None, target=None, name=None, args=(), kwargs=None):
        self.rt = rt
        self.target = target
        self.args = args
        self.kwargs = kwargs or {}
        self.name = name or 'thread'
        self.daemon = False
        self.task = None
        rt.threads.append(self)

    def start(self):
        if self.task is not None:
            raise RuntimeError('threads can only be started once')
        self.task = self.rt.spawn(self.name, lambda: self.target(*self.args, **self.kwargs),
                                  daemon=self.daemon, kind='thread')
        self.task.state = 'ready'
        self.rt.yield_('ready')

    @property
    def alive(self):
        return self.task is not None and not self.task.done

    def is_alive(self):
        return self.alive

    def join(self, timeout=None):
        if self.task is None:
            raise RuntimeError('cannot join thread before it is started')
        if self.task is self.rt.current():
            raise RuntimeError('cannot join current thread')
        if self.task.done:
            return
        wake = None if timeout is None else self.rt.now + timeout
        self.rt.yield_('blocked', cond=lambda: self.task.done, wake=wake)


class CTimer(object):
    _seq = 0

    def __init__(self, rt, interval=None, function=None, args=None, kwargs=None):
        CTimer._seq += 1
        self.seq = CTimer._seq
        self.rt = rt
        self.interval = interval
        self.function = function
        self.args = args or ()
        self.kwargs = kwargs or {}
        self.armed = False
        self.cancelled = False
        self.fired = False
        self.daemon = False
        self.deadline = None
        self.task = None
        rt.timers.append(self)

    def start(self):
        self.armed = True
        self.deadline = self.rt.now + self.interval
        self.task = self.rt.spawn('timer', self._body, daemon=True, kind='timer')
        self.task.state = 'blocked'
        self.task.cond = lambda: self.cancelled
        self.task.wake = self.deadline

    def _body(self):
        if self.cancelled:
            return
        self.armed = False
        self.fired = True
        self.function(*self.args, **self.kwargs)

    def cancel(self):
        self.cancelled = True
        self.armed = False

    def is_alive(self):
        return self.task is not None and not self.task.done

    def join(self, timeout=None):
        pass


def new_runtime(seed=0, **kw):
    vrt.install()
    vrt.RT = CRuntime(seed, **kw)
    return vrt.RT
